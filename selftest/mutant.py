#!/usr/bin/env python3
"""selftest/mutant.py <dir-with-patch.diff> [PROP ...]
Applies a seeded change to /repo, runs the quick checks of the given properties (default: the one in meta.json),
reverts /repo, and reports which checks raised an alarm.  Never leaves the patch applied."""
import json, os, subprocess, sys, time

def sh(cmd, **kw):
    return subprocess.run(cmd, shell=True, stdout=subprocess.PIPE, stderr=subprocess.STDOUT, text=True, **kw)

REPO = os.environ.get("VERIF_REPO", "/repo")
VERIF = os.path.dirname(os.path.dirname(os.path.abspath(__file__)))


def main():
    d = sys.argv[1].rstrip("/")
    props = sys.argv[2:]
    meta = json.load(open(os.path.join(d, "meta.json"))) if os.path.exists(os.path.join(d, "meta.json")) else {}
    if not props:
        props = [meta.get("property", "C01")]
    st = sh("git -C %s status --porcelain --untracked-files=no" % REPO)
    if st.stdout.strip():
        print("refusing: the repository has uncommitted changes:\n" + st.stdout); return 2
    r = sh("git -C %s apply %s/patch.diff" % (REPO, d))
    if r.returncode != 0:
        print("patch does not apply:\n" + r.stdout); return 2
    results = {}
    try:
        for p in props:
            t0 = time.time()
            c = sh("cd %s && VERIF_EVIDENCE_DIR=%s/out/evidence_seeded bin/check %s --tier quick" % (VERIF, VERIF, p))
            viol = [l for l in c.stdout.splitlines() if l.startswith("VIOLATION") or l.startswith("  what:") or l.startswith("TOOL-ERROR")]
            results[p] = {"exit": c.returncode, "wall": round(time.time() - t0, 1), "lines": viol[:6]}
            print("%s -> exit %d (%.0fs)" % (p, c.returncode, time.time() - t0))
            for l in viol[:4]:
                print("   " + l[:300])
    finally:
        sh("git -C %s checkout -- ." % REPO)
    out = {"mutant": d, "meta": meta, "results": results}
    json.dump(out, open(os.path.join(d, "check_results.json"), "w"), indent=1)
    return 0

if __name__ == "__main__":
    sys.exit(main())
