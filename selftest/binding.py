#!/usr/bin/env python3
"""selftest/binding.py - demonstrates that the trace specifications are bound to what the code logged: for each trace
specification one recorded field is corrupted and TLC must reject exactly that event (and accept the uncorrupted
trace).  Not registered in MANIFEST.json; run by hand:  python3 selftest/binding.py"""
import json, os, sys, random
sys.path.insert(0, os.path.join(os.path.dirname(os.path.abspath(__file__)), "..", "run"))
from common import *  # noqa

D = os.path.join(OUT, "binding")
os.makedirs(D, exist_ok=True)
results = []


def corrupt(src, dst, pick, mutate, window=None):
    lines = [l for l in open(src).read().splitlines() if l.strip()]
    for i, l in enumerate(lines):
        e = json.loads(l)
        if pick(e):
            mutate(e)
            lines[i] = json.dumps(e)
            break
    else:
        raise SystemExit("no event to corrupt in " + src)
    lo, hi = (0, len(lines)) if window is None else (max(0, i - window), i + 1)
    open(dst, "w").write("\n".join(lines[lo:hi]) + "\n")
    return i - lo + 1


def star(name, module, cfg, trace, pick, mutate):
    good = tlc_trace_star(module, cfg, trace, parts=1)
    bad_path = os.path.join(D, name.replace("/", "_") + ".bad.ndjson")
    # star-shaped specs: cut the trace down to a window around the corrupted event (relations look backwards)
    at = corrupt(trace, bad_path, pick, mutate, window=12)
    bad = tlc_trace_star(module, cfg, bad_path, parts=1)
    ok = not good["rejected"] and [r[0] for r in bad["rejected"]] == [at]
    results.append((name, ok, "clean rejected=%d, corrupted rejected lines=%s (expected [%d])" % (len(good["rejected"]), [r[0] for r in bad["rejected"]], at)))


def seq(name, module, cfg, trace, pick, mutate, env=None):
    good = tlc_trace_seq(module, cfg, trace, extra_env=env)
    bad_path = os.path.join(D, name.replace("/", "_") + ".bad.ndjson")
    at = corrupt(trace, bad_path, pick, mutate)
    bad = tlc_trace_seq(module, cfg, bad_path, extra_env=env)
    ok = good["accepted"] and (not bad["accepted"]) and (bad["matched"] == at - 1)
    results.append((name, ok, "clean accepted=%s, corrupted matched %s events (corruption at line %d)" % (good["accepted"], bad["matched"], at)))


def main():
    build_harness()
    t = os.path.join(D, "code.ndjson")
    harness(["code", "--family", "c13", "--out", t, "--seed", 5])
    small = os.path.join(D, "code_small.ndjson")
    open(small, "w").write("\n".join(open(t).read().splitlines()[:40]) + "\n")
    star("Trace_Code/recovery-byte", "Trace_Code", "Trace_Code.cfg", small,
         lambda e: e.get("ev") == "enc" and "rec" in e and e["k"] >= 2,
         lambda e: e["rec"][0].__setitem__(0, e["rec"][0][0] ^ 1))
    star("Trace_Code/linear-relation", "Trace_Code", "Trace_Code.cfg", small,
         lambda e: e.get("ev") == "scal",
         lambda e: e.__setitem__("c", (e["c"] % 65535) + 1))
    t = os.path.join(D, "prim.ndjson")
    harness(["prims", "--family", "tables,xf", "--out", t, "--seed", 5])
    star("Trace_Prim/skew-entry", "Trace_Prim", "Trace_Prim.cfg", t,
         lambda e: e.get("name") == "skew" and e["off"] == 20480,
         lambda e: e["vals"].__setitem__(9, e["vals"][9] ^ 2))
    star("Trace_Prim/fft-output", "Trace_Prim", "Trace_Prim.cfg", t,
         lambda e: e.get("ev") == "fft" and e["size"] == 8 and e["trunc"] >= 2,
         lambda e: e["out0"].__setitem__(e["pos"] + 1, e["out0"][e["pos"] + 1] ^ 1))
    t = os.path.join(D, "rows.ndjson")
    harness(["rows", "--out", t, "--seed", 5])
    rows_small = os.path.join(D, "rows_small.ndjson")
    lines = open(t).read().splitlines()
    open(rows_small, "w").write("\n".join(lines[:30] + lines[-30:]) + "\n")
    star("Trace_Envelope/run-length", "Trace_Envelope", "Trace_Envelope.cfg", rows_small,
         lambda e: e.get("ev") == "row" and len(e["runs"]) >= 3,
         lambda e: (e["runs"][1].__setitem__(1, e["runs"][1][1] - 1), e["runs"][2].__setitem__(1, e["runs"][2][1] + 1)))
    # sequential ones
    g = os.path.join(D, "g.json")
    res = tlc_run("MC_Codec", "MC_Codec_dec_rate.cfg", workers=4, tag="binding_codec")
    import graph as graphmod
    json.dump(graphmod.build(res["out"], "dec", "default", [2, 1, 64]), open(g, "w"))
    pre = os.path.join(D, "walk")
    harness(["replay", "--graph", g, "--outdir", D, "--seed", 5, "--mode", "walks", "--walks", 12, "--len", 30, "--trace", pre, "--engines", "naive", "--threads", 1])
    seq("Trace_Codec/snapshot-counter", "Trace_Codec", "Trace_Codec_dec.cfg", pre + ".naive.0",
        lambda e: e.get("ev") == "add_original" and e["ret"].get("ok"),
        lambda e: e["snap"].__setitem__("oc", e["snap"]["oc"] + 1))
    seq("Trace_Codec/return-value", "Trace_Codec", "Trace_Codec_dec.cfg", pre + ".naive.0",
        lambda e: e.get("ev") == "decode" and e["ret"].get("err") == "NotEnoughShards",
        lambda e: e["ret"].__setitem__("original_received_count", e["ret"]["original_received_count"] + 1))
    t = os.path.join(D, "dispatch.ndjson")
    harness(["dispatch", "--out", t, "--seed", 5])
    seq("Trace_Dispatch/isa-counter", "Trace_Dispatch", "Trace_Dispatch.cfg", t,
        lambda e: e.get("ev") == "call" and e["isas"]["avx2"]["fft"] > 0,
        lambda e: (e["isas"]["ssse3"].__setitem__("fft", 1)))
    harness(["threads", "--outdir", D, "--seed", 5, "--races", 6, "--storms", 2])
    seq("Trace_TableInit/result-digest", "Trace_TableInit", "Trace_TableInit.cfg", os.path.join(D, "trace.ndjson"),
        lambda e: e.get("ev") == "result",
        lambda e: e.__setitem__("dig", "0" * 16), env={"DEPS": os.path.join(D, "deps.ndjson")})
    t = os.path.join(D, "shards.ndjson")
    harness(["shards", "--walks", 30, "--steps", 20, "--out", t, "--seed", 5])
    seq("Trace_Shards/chunk-content", "Trace_Shards", "Trace_Shards.cfg", t,
        lambda e: e.get("ev") == "xor_within" and e["c"] >= 1 and any(len(c) >= 2 for c in e["flat"]),
        lambda e: [c for c in e["flat"] if len(c) >= 2][0].pop())
    seq("Trace_Shards/split-length", "Trace_Shards", "Trace_Shards.cfg", t,
        lambda e: e.get("ev") == "split",
        lambda e: e.__setitem__("len", e["len"] + 1))
    bad = 0
    for name, ok, msg in results:
        print("%-34s %s  %s" % (name, "BOUND" if ok else "NOT BOUND", msg))
        bad += not ok
    return 1 if bad else 0


if __name__ == "__main__":
    sys.exit(main())
