#!/usr/bin/env python3
"""selftest/decwork_mutations.py - non-vacuity of spec/DecWork.tla: six specification-level mutations (the
bookkeeping mistakes that sub-agents independently seeded into decoder_work.rs in round 8, and two more) must each
violate DInv / StepOK in the bounded model MC_DecWork_3.cfg.  Exit 0 when all are rejected."""
import os, re, shutil, subprocess, sys, tempfile
SPEC = os.path.join(os.path.dirname(os.path.dirname(os.path.abspath(__file__))), "spec")
MUTS = {
 'reset_keeps_bits_when_grown': ("  /\\ bits' = {}                                                     \\* received.clear()", "  /\\ bits' = IF blen < OBase(c.rate, c.k, c.r) + c.k \\/ blen < RBase(c.rate, c.k, c.r) + c.r THEN bits ELSE {}"),
 'reset_never_clears': ("  /\\ bits' = {}                                                     \\* received.clear()", "  /\\ bits' = bits"),
 'bit_set_before_size_check': ("     ELSE IF ~szok THEN ret' = \"different_size\" /\\ UNCHANGED <<bits, ocnt>>", "     ELSE IF ~szok THEN ret' = \"different_size\" /\\ bits' = bits \\cup {obase + i} /\\ UNCHANGED ocnt"),
 'drop_keeps_bits': ("  /\\ bits' = {} /\\ ocnt' = 0 /\\ rcnt' = 0 /\\ ret' = \"ok\"", "  /\\ bits' = bits /\\ ocnt' = 0 /\\ rcnt' = 0 /\\ ret' = \"ok\""),
 'bitmap_exactly_as_long_as_needed': ("             IN IF blen < need THEN need ELSE blen                  \\* grow only when shorter", "             IN need"),
 'high_obase_is_r': ('OBase(rt, kk, rr) == IF rt = "high" THEN NPot(rr) ELSE 0', 'OBase(rt, kk, rr) == IF rt = "high" THEN rr - 1 ELSE 0'),
}
def main():
    d = tempfile.mkdtemp(prefix="decmut_", dir=os.path.join(os.path.dirname(SPEC), "out") if os.path.isdir(os.path.join(os.path.dirname(SPEC), "out")) else None)
    bad = 0
    try:
        for f in ("DecWork.tla", "Envelope.tla", "Pow.tla", "MC_DecWork_3.cfg"):
            shutil.copy(os.path.join(SPEC, f), d)
        base = open(os.path.join(d, "DecWork.tla")).read()
        for n, (a, b) in MUTS.items():
            assert a in base, n
            open(os.path.join(d, "DecWork.tla"), "w").write(base.replace(a, b, 1))
            out = subprocess.run("timeout 300 java -Xss64m -Djava.io.tmpdir=. -cp /opt/veriftools/tla/tla2tools.jar:/opt/veriftools/tla/CommunityModules-deps.jar tlc2.TLC -workers 4 -metadir ./m -cleanup -noGenerateSpecTE -config MC_DecWork_3.cfg DecWork.tla",
                                 shell=True, cwd=d, capture_output=True, text=True).stdout
            m = re.findall(r'(Invariant \w+ is violated|Action property \w+ is violated|No error has been found)', out)
            print(n, m[:1])
            if not m or "violated" not in m[0]:
                bad += 1
    finally:
        shutil.rmtree(d, ignore_errors=True)
    return 1 if bad else 0
if __name__ == "__main__":
    sys.exit(main())
