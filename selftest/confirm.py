#!/usr/bin/env python3
"""selftest/confirm.py <seeded_out_dir>/<Cxx>/<a|b> <worktree>
Independent confirmation of a seeded change in a scratch worktree: it applies, compiles, the existing suite passes
with it, its demonstration fails with it and passes without it. Writes confirm.json next to the patch."""
import json, os, subprocess, sys, shutil

def sh(cmd, cwd):
    p = subprocess.run(cmd, shell=True, cwd=cwd, stdout=subprocess.PIPE, stderr=subprocess.STDOUT, text=True)
    return p.returncode, p.stdout

def main():
    d, wt = sys.argv[1].rstrip("/"), sys.argv[2]
    name = "demo_" + d.replace("/", "_").replace(".", "_")[-12:].replace("-", "_")
    res = {}
    sh("git checkout -- . && git clean -fdq tests", wt)
    rc, out = sh("git apply %s/patch.diff" % os.path.abspath(d), wt)
    res["applies"] = rc == 0
    shutil.copy(os.path.join(d, "demo.rs"), os.path.join(wt, "tests", name + ".rs"))
    rc, out = sh("cargo test --offline %s --test %s 2>&1 | tail -30" % (os.environ.get("FEATURES", ""), name), wt)
    res["demo_fails_with"] = ("test result: FAILED" in out) or ("panicked" in out and "test result: ok" not in out)
    res["demo_with_tail"] = out[-600:]
    os.remove(os.path.join(wt, "tests", name + ".rs"))
    rc, out = sh("cargo test --workspace --offline 2>&1 | grep -E 'test result|FAILED|error'", wt)
    res["suite_passes_with"] = ("FAILED" not in out) and ("error" not in out) and out.count("test result: ok") >= 3
    res["suite_tail"] = out[-400:]
    sh("git checkout -- .", wt)
    shutil.copy(os.path.join(d, "demo.rs"), os.path.join(wt, "tests", name + ".rs"))
    rc, out = sh("cargo test --offline %s --test %s 2>&1 | tail -8" % (os.environ.get("FEATURES", ""), name), wt)
    res["demo_passes_without"] = "test result: ok" in out and "FAILED" not in out
    os.remove(os.path.join(wt, "tests", name + ".rs"))
    sh("git checkout -- . && git clean -fdq tests", wt)
    res["confirmed"] = all(res[k] for k in ("applies", "demo_fails_with", "suite_passes_with", "demo_passes_without"))
    json.dump(res, open(os.path.join(d, "confirm.json"), "w"), indent=1)
    print(d, "confirmed" if res["confirmed"] else "NOT CONFIRMED", {k: v for k, v in res.items() if isinstance(v, bool)})

if __name__ == "__main__":
    main()
