#!/usr/bin/env python3
"""Copies confirmed seeded changes from /tmp/seeded_out into /verif/seeded/<id>/ with a meta.json that records
which property it breaks, what it needs to manifest, and what was run (confirmation + check results)."""
import json, os, shutil, sys
src = sys.argv[1] if len(sys.argv) > 1 else "/tmp/seeded_out"
rnd = sys.argv[2] if len(sys.argv) > 2 else "1"
dst = "/verif/seeded"
rows = []
for c in sorted(os.listdir(src)):
    for x in sorted(os.listdir(os.path.join(src, c))):
        d = os.path.join(src, c, x)
        if not os.path.exists(os.path.join(d, "confirm.json")):
            continue
        conf = json.load(open(os.path.join(d, "confirm.json")))
        if not conf.get("confirmed"):
            print("skip (not confirmed)", d); continue
        meta = json.load(open(os.path.join(d, "meta.json")))
        chk = json.load(open(os.path.join(d, "check_results.json"))) if os.path.exists(os.path.join(d, "check_results.json")) else {"results": {}}
        sid = "%s%s" % (c, x if rnd == "1" else {"2": {"a": "c", "b": "d"}, "3": {"a": "e", "b": "f"}, "4": {"a": "g", "b": "h"}, "5": {"a": "a", "b": "b", "c": "c"}, "6": {"a": "a", "b": "b", "c": "c"}, "7": {"a": "a", "b": "b", "c": "c"}, "8": {"a": "a", "b": "b", "c": "c"}, "9": {"a": "c", "b": "d"}}[rnd][x])
        out = os.path.join(dst, sid)
        os.makedirs(out, exist_ok=True)
        shutil.copy(os.path.join(d, "patch.diff"), os.path.join(out, "patch.diff"))
        shutil.copy(os.path.join(d, "demo.rs"), os.path.join(out, "demo.rs"))
        m = {"id": sid, "property": meta.get("property", c) if rnd in ("5", "6", "7", "8", "9") else c, "also_breaks": meta.get("also_breaks"), "summary": meta.get("summary"), "needs": meta.get("needs"), "files": meta.get("files"),
             "origin": "written by an independent sub-agent given only the property text and a scratch worktree (round %s)" % rnd,
             "confirmed_in_scratch_worktree": {k: conf[k] for k in ("applies", "suite_passes_with", "demo_fails_with", "demo_passes_without")},
             "ran": ["selftest/confirm.py: git apply; cargo test --offline --test demo (fails); cargo test --workspace --offline (passes); revert; demo passes",
                     "selftest/mutant.py: git -C /repo apply patch.diff; bin/check %s --tier quick; git -C /repo checkout -- ." % (meta.get("property", c) if rnd in ("5", "6", "7", "8", "9") else c)],
             "checks": {p: {"exit": r["exit"], "first_lines": r["lines"][:2]} for p, r in chk["results"].items()}}
        if "demo_note" in meta:
            m["demo_note"] = meta["demo_note"]
        json.dump(m, open(os.path.join(out, "meta.json"), "w"), indent=1)
        rows.append((sid, c, meta.get("summary", "")[:100], {p: r["exit"] for p, r in chk["results"].items()}))
for r in rows:
    print(r)
