SPECIFICATION Spec
CONSTANTS Bits = 6
INVARIANT EnvInv
CHECK_DEADLOCK FALSE
