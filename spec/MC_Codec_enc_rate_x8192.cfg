SPECIFICATION Spec
CONSTANTS Bits = 16
          Role = "enc"
          Kind0 = "default"
          Rehousing = TRUE
          Scale = 8192
          Big = FALSE
VIEW View
ACTION_CONSTRAINT Emit
INVARIANTS TypeOK RateConsistent LiveImpliesEnough
PROPERTY NoopProp
CHECK_DEADLOCK FALSE
