SPECIFICATION TraceSpec
INVARIANT TraceInv
POSTCONDITION TraceAccepted
CHECK_DEADLOCK FALSE
