------------------------------ MODULE MC_Algo ------------------------------
(***************************************************************************)
(* Bounded check of the transcribed procedures (Algo.tla) on a small field *)
(* with a Cantor basis.  One initial state per configuration; the erasure  *)
(* subset is chosen in Next so that the work is spread over TLC's workers. *)
(***************************************************************************)
EXTENDS Algo, Envelope

CONSTANTS MaxN,       \* configurations with k + r <= MaxN get every sufficient subset
          MaxCfg,     \* configurations with k + r <= MaxCfg are explored at all
          Corners     \* TRUE: instead, the corner and chunk-edge configurations of the scaled envelope with maximum-loss patterns

BasisFor == CASE Bits = 2 -> <<1, 2>>
              [] Bits = 4 -> <<1, 6, 2, 10>>
              [] Bits = 8 -> <<1, 214, 152, 146, 86, 200, 88, 230>>

SmallCfgs == {c \in {"high", "low"} \X (1..(Order-1)) \X (1..(Order-1)) :
                /\ Supports(c[1], c[2], c[3]) /\ c[2] + c[3] <= MaxCfg}
\* staircase corners (both coordinates), multi-chunk shapes with full and partial last chunks
CornerPairs == {<<Order - 2^n, 2^n>> : n \in 0..(Bits-1)}
               \cup {<<Order - 2^n - 1, 2^n>> : n \in 0..(Bits-2)}
               \cup {<<Order - 2^(n+1), 2^n + 1>> : n \in 0..(Bits-2)}
               \cup {<<3 * 2^n + 1, 2^n>> : n \in 1..(Bits-3)} \cup {<<5 * 2^n - 1, 2^n - 1>> : n \in 2..(Bits-3)}
CornerCfgs == {c \in {"high", "low"} \X (1..(Order-1)) \X (1..(Order-1)) :
                 /\ Supports(c[1], c[2], c[3])
                 /\ (IF c[1] = "high" THEN <<c[2], c[3]>> \in CornerPairs ELSE <<c[3], c[2]>> \in CornerPairs)}
Cfgs == IF Corners THEN CornerCfgs ELSE SmallCfgs

\* data sets: a ramp of distinct non-zero symbols, and (small k) every unit vector
Ramp(k) == [i \in 1..k |-> ((7 * i + 3) % (Order - 1)) + 1]
Unit(k, u, v) == [i \in 1..k |-> IF i = u THEN v ELSE 0]
DataSets(k) == {Ramp(k)} \cup {Unit(k, u, Order - 1) : u \in (IF k <= 16 THEN 1..k ELSE {1, k \div 2, k})}
Poisons == {0, 1, Order - 1}

VARIABLES cfg, ph, gO, gR
vars == <<cfg, ph, gO, gR>>
Init == cfg \in Cfgs /\ ph = "enc" /\ gO = {} /\ gR = {}

K == cfg[2]
R == cfg[3]
\* subsets explored: everything sufficient when small, else exactly k and k+1 shards
SizesFor(k, r) == IF k + r <= MaxN THEN k..(k + r) ELSE {k, k + 1} \cap (k..(k + r))
\* maximum-loss patterns for the corner configurations: as many originals lost as there are recovery shards -
\* the first ones, the last ones, or every other one - and all recovery shards given
Lost == IF R < K THEN R ELSE K
CornerGiven == {(Lost..(K-1)), (0..(K-1-Lost)), {i \in 0..(K-1) : i % 2 = 1 \/ i >= 2 * Lost}}
Next ==
  \/ /\ ph = "enc" /\ ph' = "origs" /\ UNCHANGED <<cfg, gO, gR>>
  \/ /\ ph = "origs" /\ ph' = "recs" /\ UNCHANGED <<cfg, gR>>
     /\ IF Corners THEN gO' \in CornerGiven ELSE gO' \in SUBSET (0..(K-1))
  \/ /\ ph = "recs" /\ ph' = "dec"
     /\ IF Corners THEN gR' = 0..(R-1)
        ELSE \E n \in SizesFor(K, R) : n - Cardinality(gO) >= 0 /\ n - Cardinality(gO) <= R
                                       /\ gR' \in kSubset(n - Cardinality(gO), 0..(R-1))
     /\ UNCHANGED <<cfg, gO>>
Spec == Init /\ [][Next]_vars

\* the encoder procedures compute the closed form, whatever the stale memory holds
EncInv ==
  ph = "enc" =>
     \A d \in DataSets(K) : \A p \in Poisons :
        AlgoEncode(cfg[1], K, R, d, p) = Encode(cfg[1], K, R, d)

\* the decoder procedures return exactly the missing originals, whatever the stale memory holds
DecInv ==
  ph = "dec" =>
     \A d \in {Ramp(K)} : \A rec \in {Encode(cfg[1], K, R, Ramp(K))} : \A p \in {0, Order - 1} :
        AlgoDecode(cfg[1], K, R, d, rec, gO, gR, p) = [i \in (0..(K-1)) \ gO |-> d[i+1]]
=============================================================================
