SPECIFICATION Spec
CONSTANTS Bits = 8
          Poly = 285
          Basis <- BasisFor
          MaxN = 7
          MaxCfg = 10
          Corners = FALSE
INVARIANTS EncInv DecInv
CHECK_DEADLOCK FALSE
