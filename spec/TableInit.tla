------------------------------ MODULE TableInit ------------------------------
(***************************************************************************)
(* First-use initialisation of the process-wide lookup tables when several *)
(* threads race to it.  Each table is a std::sync::LazyLock: the first     *)
(* thread to force it runs the initialiser, others forcing it meanwhile    *)
(* block until it is done; forcing a table from inside its own initialiser *)
(* (directly or through a cycle of dependencies) never completes.          *)
(*                                                                         *)
(* Deps[X] = the tables the initialiser of X forces.  It is NOT written    *)
(* down here: the check derives it from the current code (hook H4, one     *)
(* fresh process per table) and TLC then explores every interleaving of    *)
(* threads running the observed programs - so a dependency cycle, or an    *)
(* ordering that can deadlock, is found even if the operating system never *)
(* schedules it.                                                           *)
(***************************************************************************)
EXTENDS Naturals, Sequences, FiniteSets, TLC

CONSTANTS Tables,     \* set of table names
          Deps,       \* [Tables -> SUBSET Tables]
          Threads,    \* set of threads
          Programs    \* set of sequences of tables: what constructing and using one codec forces, in order

VARIABLES st,      \* [Tables -> "uninit" | "running" | "done"]
          owner,   \* [Tables -> Threads \cup {"-"}]: who runs the initialiser
          todo,    \* [Threads -> Seq(Tables)]: tables the thread still has to force at top level
          stk,     \* [Threads -> Seq([tab, rem])]: initialisers the thread is inside of, innermost last
          runs,    \* [Tables -> Nat]: how often the initialiser body was started
          stuck    \* TRUE once a thread forced a table it is itself initialising (never completes)
vars == <<st, owner, todo, stk, runs, stuck>>

Init == /\ st = [x \in Tables |-> "uninit"] /\ owner = [x \in Tables |-> "-"]
        /\ todo \in [Threads -> Programs]
        /\ stk = [t \in Threads |-> <<>>]
        /\ runs = [x \in Tables |-> 0] /\ stuck = FALSE

Top(t) == stk[t][Len(stk[t])]
Pop(s) == SubSeq(s, 1, Len(s) - 1)
OnStack(t, x) == \E i \in DOMAIN stk[t] : stk[t][i].tab = x

\* thread t forces table x; `then` says what t does once x is available
Force(t, x, avail, start) ==
  CASE st[x] = "done"   -> avail
    [] st[x] = "uninit" -> start
    [] st[x] = "running" /\ OnStack(t, x) -> stuck' = TRUE /\ UNCHANGED <<st, owner, todo, stk, runs>>
    [] OTHER -> FALSE                                        \* another thread runs the initialiser: blocked

StartInit(t, x) ==
  /\ st' = [st EXCEPT ![x] = "running"] /\ owner' = [owner EXCEPT ![x] = t]
  /\ stk' = [stk EXCEPT ![t] = Append(@, [tab |-> x, rem |-> Deps[x]])]
  /\ runs' = [runs EXCEPT ![x] = @ + 1]
  /\ UNCHANGED <<todo, stuck>>

\* top level: force the next table of the program
Begin(t) ==
  /\ ~stuck /\ stk[t] = <<>> /\ todo[t] # <<>>
  /\ LET x == Head(todo[t]) IN
     Force(t, x,
           todo' = [todo EXCEPT ![t] = Tail(@)] /\ UNCHANGED <<st, owner, stk, runs, stuck>>,
           StartInit(t, x))
\* inside an initialiser: force one of the remaining dependencies
Dep(t) ==
  /\ ~stuck /\ stk[t] # <<>> /\ Top(t).rem # {}
  /\ \E d \in Top(t).rem :
       Force(t, d,
             stk' = [stk EXCEPT ![t][Len(stk[t])].rem = @ \ {d}] /\ UNCHANGED <<st, owner, todo, runs, stuck>>,
             StartInit(t, d))
\* the initialiser body is done: publish the table
Finish(t) ==
  /\ ~stuck /\ stk[t] # <<>> /\ Top(t).rem = {}
  /\ st' = [st EXCEPT ![Top(t).tab] = "done"]
  /\ stk' = [stk EXCEPT ![t] = Pop(@)]
  /\ UNCHANGED <<owner, todo, runs, stuck>>
Done == (\A t \in Threads : todo[t] = <<>> /\ stk[t] = <<>>) /\ UNCHANGED vars

Next == (\E t \in Threads : Begin(t) \/ Dep(t) \/ Finish(t)) \/ Done
Spec == Init /\ [][Next]_vars /\ WF_vars(Next)

NeverStuck   == ~stuck
AtMostOnce   == \A x \in Tables : runs[x] <= 1
\* a table is only used (a program step completes, a dependent initialiser proceeds) once it is done
UseAfterDone == \A t \in Threads : \A i \in DOMAIN stk[t] :
                   \A d \in Deps[stk[t][i].tab] \ stk[t][i].rem :
                      st[d] = "done" \/ (i < Len(stk[t]) /\ stk[t][i+1].tab = d)
\* every thread eventually finishes its program (no deadlock, no livelock)
Terminates   == <>[](\A t \in Threads : todo[t] = <<>> /\ stk[t] = <<>>)
=============================================================================
