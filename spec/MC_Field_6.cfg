SPECIFICATION Spec
CONSTANTS Bits = 6
          Poly = 67
          Basis <- BasisFor
INVARIANT FieldInv
CHECK_DEADLOCK FALSE
