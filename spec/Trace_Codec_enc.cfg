SPECIFICATION TraceSpec
CONSTANTS Bits = 16
          Role = "enc"
INVARIANT TraceInv
POSTCONDITION TraceAccepted
CHECK_DEADLOCK FALSE
