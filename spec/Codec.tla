------------------------------- MODULE Codec -------------------------------
(***************************************************************************)
(* Object protocol of reed-solomon-simd: ONE encoder or ONE decoder object *)
(* of some kind (dedicated high / low rate, default rate, or the           *)
(* ReedSolomonEncoder/Decoder wrapper "rs").  One action = one public      *)
(* call; the linearisation point of this sequential library is the return  *)
(* of the call.                                                            *)
(*                                                                         *)
(* Payload bytes are not modelled here: an encoder remembers the sequence  *)
(* of payload ids it was given, a decoder the SETS of original / recovery  *)
(* indexes it received (a round's shards are determined by their index).   *)
(* What the results must contain is expressed over those (RecoveryView /   *)
(* RestoredView); the bytes behind them are pinned by Code.tla.            *)
(*                                                                         *)
(* usize values that do not fit TLC's integers are encoded as negative     *)
(* numbers: -(usize::MAX - v) - 1, so -1 = MAX, -2 = MAX - 1, ...          *)
(***************************************************************************)
EXTENDS CodecRules, TLC

CONSTANTS Role        \* "enc" | "dec"

Blocks(sb) == (sb + 63) \div 64
\* working-space need of a configuration: 64-byte blocks of shard memory, bitmap bits (decoder)
NeedBlocks(rate, k, r, sb) ==
  (IF Role = "enc" THEN WorkCountEnc(rate, k, r) ELSE WorkCountDec(rate, k, r)) * Blocks(sb)
NeedBits(rate, k, r) == IF Role = "enc" THEN 0 ELSE BitmapNeed(rate, k, r)

VARIABLES kind,    \* "high" | "low" | "default" | "rs"
          cfg,     \* [k, r, sb]
          rate,    \* "high" | "low": the dedicated codec in use
          added,   \* encoder: sequence of payload ids added in this round
          gotO,    \* decoder: set of original indexes received in this round
          gotR,    \* decoder: set of recovery indexes received in this round
          res,     \* "none" | "live": a live result borrows the object
          held,    \* [blocks, bits]: largest working-space need since the work space was created (history)
          last     \* the call just made: arguments, allowed returns, expected views (observation only)
vars == <<kind, cfg, rate, added, gotO, gotR, res, held, last>>

InitWith(kd, k, r, sb) ==
  LET rt == RateOf(SuppKind(kd), k, r) IN
  /\ kind = kd /\ cfg = [k |-> k, r |-> r, sb |-> sb] /\ rate = rt
  /\ added = <<>> /\ gotO = {} /\ gotR = {} /\ res = "none"
  /\ held = [blocks |-> NeedBlocks(rt, k, r, sb), bits |-> NeedBits(rt, k, r)]
  /\ last = [act |-> "new", kind |-> kd, k |-> k, r |-> r, sb |-> sb, allowed |-> OK, may_alloc |-> TRUE]

(***************************************************************************)
(* reset (same kind) and rehouse (into_parts, then new(kind', Some(work))):*)
(* the same effect on the abstract state.  A failing reset changes         *)
(* nothing.  A failing rehouse consumes the object and is not modelled.    *)
(***************************************************************************)
Reconfigure(act, kd, k, r, sb) ==
  /\ res = "none"
  /\ LET al == AllowedOf(ConfigViolations(kd, k, r, sb)) IN
     IF al = OK
     THEN LET rt == RateOf(SuppKind(kd), k, r)
              nb == NeedBlocks(rt, k, r, sb)
              nbits == NeedBits(rt, k, r) IN
          /\ kind' = kd /\ cfg' = [k |-> k, r |-> r, sb |-> sb] /\ rate' = rt
          /\ added' = <<>> /\ gotO' = {} /\ gotR' = {} /\ UNCHANGED res
          /\ held' = [blocks |-> Max2(held.blocks, nb), bits |-> Max2(held.bits, nbits)]
          /\ last' = [act |-> act, kind |-> kd, k |-> k, r |-> r, sb |-> sb, allowed |-> al,
                      may_alloc |-> (nb > held.blocks \/ nbits > held.bits)]
     ELSE /\ act = "reset"
          /\ UNCHANGED <<kind, cfg, rate, added, gotO, gotR, res, held>>
          /\ last' = [act |-> act, kind |-> kd, k |-> k, r |-> r, sb |-> sb, allowed |-> al, may_alloc |-> FALSE]
Reset(k, r, sb) == Reconfigure("reset", kind, k, r, sb)
Rehouse(kd, k, r, sb) == kind # "rs" /\ kd # "rs" /\ Reconfigure("rehouse", kd, k, r, sb)

(***************************************************************************)
(* Encoder                                                                 *)
(***************************************************************************)
EncAdd(pay, len) ==
  /\ Role = "enc" /\ res = "none"
  /\ LET al == AllowedOf(EncAddViolations(cfg.k, cfg.sb, Len(added), len)) IN
     /\ last' = [act |-> "add", pay |-> pay, len |-> len, allowed |-> al, may_alloc |-> FALSE]
     /\ IF al = OK THEN added' = Append(added, pay) ELSE UNCHANGED added
     /\ UNCHANGED <<kind, cfg, rate, gotO, gotR, res, held>>

Encode ==
  /\ Role = "enc" /\ res = "none"
  /\ LET al == AllowedOf(EncodeViolations(cfg.k, Len(added))) IN
     /\ res' = (IF al = OK THEN "live" ELSE res)
     /\ last' = [act |-> "encode", allowed |-> al, may_alloc |-> FALSE]
  /\ UNCHANGED <<kind, cfg, rate, added, gotO, gotR, held>>

(***************************************************************************)
(* Decoder                                                                 *)
(***************************************************************************)
DecAdd(which, i, len) ==
  /\ Role = "dec" /\ res = "none"
  /\ LET cnt == IF which = "original" THEN cfg.k ELSE cfg.r
         got == IF which = "original" THEN gotO ELSE gotR
         al == AllowedOf(DecAddViolations(which, cnt, cfg.sb, got, i, len)) IN
     /\ last' = [act |-> "add_" \o which, index |-> i, len |-> len, allowed |-> al, may_alloc |-> FALSE]
     /\ IF al = OK THEN (IF which = "original" THEN gotO' = gotO \cup {i} /\ UNCHANGED gotR
                                               ELSE gotR' = gotR \cup {i} /\ UNCHANGED gotO)
                   ELSE UNCHANGED <<gotO, gotR>>
     /\ UNCHANGED <<kind, cfg, rate, added, res, held>>

Decode ==
  /\ Role = "dec" /\ res = "none"
  /\ LET al == AllowedOf(DecodeViolations(cfg.k, Cardinality(gotO), Cardinality(gotR))) IN
     /\ res' = (IF al = OK THEN "live" ELSE res)
     /\ last' = [act |-> "decode", allowed |-> al, may_alloc |-> FALSE]
  /\ UNCHANGED <<kind, cfg, rate, added, gotO, gotR, held>>

(***************************************************************************)
(* Results.  While a result is live it borrows the object: only queries,   *)
(* iteration and drop are possible.                                        *)
(*   RecoveryView: index -> recovery shard of the added originals, exactly *)
(*                 for 0 <= index < recovery_count                         *)
(*   RestoredView: index -> original shard, exactly for the in-range       *)
(*                 indexes that were not given                             *)
(***************************************************************************)
ViewDomain == IF Role = "enc" THEN 0..(cfg.r - 1) ELSE (0..(cfg.k - 1)) \ gotO

Query(i) ==
  /\ res = "live"
  /\ last' = [act |-> "query", index |-> i, may_alloc |-> FALSE,
              some |-> (~Huge(i) /\ i \in ViewDomain), len |-> cfg.sb]
  /\ UNCHANGED <<kind, cfg, rate, added, gotO, gotR, res, held>>

\* iterate to exhaustion, then poll the exhausted iterator again: None forever
IterAll ==
  /\ res = "live"
  /\ last' = [act |-> "iter", may_alloc |-> FALSE, yields |-> ViewDomain, len |-> cfg.sb]
  /\ UNCHANGED <<kind, cfg, rate, added, gotO, gotR, res, held>>

\* dropping the result forgets the added shards: the same object accepts a new round
Drop ==
  /\ res = "live" /\ res' = "none" /\ added' = <<>> /\ gotO' = {} /\ gotR' = {}
  /\ last' = [act |-> "drop", may_alloc |-> FALSE]
  /\ UNCHANGED <<kind, cfg, rate, held>>

(***************************************************************************)
(* Invariants of the design                                                *)
(***************************************************************************)
TypeOK ==
  /\ res \in {"none", "live"} /\ rate \in {"high", "low"} /\ kind \in {"high", "low", "default", "rs"}
  /\ SupportsE(SuppKind(kind), cfg.k, cfg.r) /\ ~BadSize(cfg.sb)
  /\ Len(added) <= cfg.k /\ gotO \subseteq 0..(cfg.k - 1) /\ gotR \subseteq 0..(cfg.r - 1)
\* the dedicated codec in use supports the configuration, and is the one the rule fixes
RateConsistent ==
  /\ Supports(rate, cfg.k, cfg.r)
  /\ rate = RateOf(SuppKind(kind), cfg.k, cfg.r)
LiveImpliesEnough ==
  res = "live" => IF Role = "enc" THEN Len(added) = cfg.k
                                  ELSE Cardinality(gotO) + Cardinality(gotR) >= cfg.k
HeldCovers == /\ held.blocks >= NeedBlocks(rate, cfg.k, cfg.r, cfg.sb)
              /\ held.bits >= NeedBits(rate, cfg.k, cfg.r)
\* a failing call changes nothing (action property, checked as [][...]_vars)
FailureIsNoop ==
  (last'.act \in {"reset", "add", "add_original", "add_recovery", "encode", "decode"} /\ last'.allowed # OK)
     => UNCHANGED <<kind, cfg, rate, added, gotO, gotR, res, held>>
=============================================================================
