SPECIFICATION Spec
CONSTANTS Bits = 16
          MaxShards = 2
INVARIANT FoldInsideContract
ACTION_CONSTRAINT Emit
CHECK_DEADLOCK FALSE
