SPECIFICATION Spec
CONSTANTS Palette = 3
          Depth = 2
INVARIANTS ShTypeOK Nested RootClosed EmitScript
PROPERTY FrameProp
CHECK_DEADLOCK FALSE
