---------------------------- MODULE MC_TableInit ----------------------------
(* Instance over the dependencies and programs OBSERVED from the current    *)
(* code: file IOEnv.DEPS has one JSON object per line,                      *)
(*   {"table": X, "deps": [...]}   or   {"prog": name, "touch": [...]}      *)
EXTENDS TableInit, Json, IOUtils
Obs == ndJsonDeserialize(IOEnv.DEPS)
SeqSet(s) == {s[i] : i \in DOMAIN s}
ObsTables == UNION {IF "table" \in DOMAIN Obs[i] THEN {Obs[i].table} \cup SeqSet(Obs[i].deps) ELSE SeqSet(Obs[i].touch) : i \in DOMAIN Obs}
ObsDeps == [x \in ObsTables |-> UNION {SeqSet(Obs[i].deps) : i \in {i \in DOMAIN Obs : "table" \in DOMAIN Obs[i] /\ Obs[i].table = x}}]
ObsPrograms == {Obs[i].touch : i \in {i \in DOMAIN Obs : "prog" \in DOMAIN Obs[i]}}
ThreeThreads == {"t1", "t2", "t3"}

(***************************************************************************)
(* Schedules for the real code (hook H6 holds a thread at the begin or the *)
(* end of an initialiser): every reachable state in which some initialiser *)
(* is running is printed; the harness drives fresh processes into that     *)
(* state - one thread per stack, held at its innermost initialiser; the    *)
(* threads about to force a table as arrivals - and releases everything at *)
(* the same instant.  The model says every such state leads to termination *)
(* with the tables intact, whatever the scheduler does next.               *)
(***************************************************************************)
Running == {x \in Tables : st[x] = "running"}
HoldView == [done  |-> {x \in Tables : st[x] = "done"},
             stks  |-> {[touch |-> stk[t][1].tab, hold |-> Top(t).tab,
                         fresh |-> (Top(t).rem = Deps[Top(t).tab]), spent |-> (Top(t).rem = {})] : t \in {u \in Threads : stk[u] # <<>>}},
             next  |-> {<<t, Head(todo[t])>> : t \in {u \in Threads : stk[u] = <<>> /\ todo[u] # <<>>}}]
EmitHold == (Running # {}) => PrintT(<<"HOLD", ToJson(HoldView)>>)
=============================================================================
