---------------------------- MODULE MC_TableInit ----------------------------
(* Instance over the dependencies and programs OBSERVED from the current    *)
(* code: file IOEnv.DEPS has one JSON object per line,                      *)
(*   {"table": X, "deps": [...]}   or   {"prog": name, "touch": [...]}      *)
EXTENDS TableInit, Json, IOUtils
Obs == ndJsonDeserialize(IOEnv.DEPS)
SeqSet(s) == {s[i] : i \in DOMAIN s}
ObsTables == UNION {IF "table" \in DOMAIN Obs[i] THEN {Obs[i].table} \cup SeqSet(Obs[i].deps) ELSE SeqSet(Obs[i].touch) : i \in DOMAIN Obs}
ObsDeps == [x \in ObsTables |-> UNION {SeqSet(Obs[i].deps) : i \in {i \in DOMAIN Obs : "table" \in DOMAIN Obs[i] /\ Obs[i].table = x}}]
ObsPrograms == {Obs[i].touch : i \in {i \in DOMAIN Obs : "prog" \in DOMAIN Obs[i]}}
ThreeThreads == {"t1", "t2", "t3"}
=============================================================================
