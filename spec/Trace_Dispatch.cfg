SPECIFICATION TraceSpec
CONSTANT Pref <- PrefX86
INVARIANT TraceInv
POSTCONDITION TraceAccepted
CHECK_DEADLOCK FALSE
