SPECIFICATION Spec
CONSTANTS Bits = 5
          Poly = 37
          Basis <- BasisFor
INVARIANT FieldInv
CHECK_DEADLOCK FALSE
