------------------------------ MODULE MC_Codec ------------------------------
(***************************************************************************)
(* Bounded model of the object protocol over an explicit palette of        *)
(* configurations and argument classes.  TLC explores the whole reachable  *)
(* graph and prints every edge (including the self-loops of failing calls) *)
(* so that the harness can replay one implementation run per transition.   *)
(***************************************************************************)
EXTENDS Codec, Json

CONSTANTS Kind0,      \* kind of the object at construction
          Rehousing,  \* TRUE: the working space may be moved to codecs of other kinds
          Big,        \* TRUE: the larger palette (thorough tier)
          Scale       \* shard sizes of the valid small configurations are multiplied by this (C17: large shards)

Kinds == IF Rehousing THEN {"high", "low", "default"} ELSE {}

\* small valid configurations: shards are added and coded
\* shapes: k <, =, > chunk size m = NPot(r) resp. NPot(k); r a power of two or not; partial last chunks; 1..3 blocks per shard
SmallCfgs1 == {<<2, 1, 64>>, <<1, 2, 64>>, <<2, 3, 2>>, <<3, 2, 130>>, <<2, 2, 66>>, <<1, 1, 2>>, <<3, 3, 6>>}
              \cup (IF Big THEN {<<4, 1, 6>>, <<1, 4, 192>>, <<5, 3, 4>>} ELSE {})
SmallCfgs == {<<c[1], c[2], c[3] * Scale>> : c \in SmallCfgs1}
\* large configurations at the envelope boundary: reset / rehouse only (valid for some kinds only)
LargeCfgs == {<<61440, 4096, 2>>, <<4096, 61440, 2>>, <<32768, 32768, 2>>, <<49152, 16384, 4>>, <<16384, 49152, 4>>,
              <<65535, 1, 2>>, <<1, 65535, 2>>}
\* invalid ones: counts 0, 65536, just outside the staircase, usize::MAX; sizes 0, odd, usize::MAX
BadCfgs == {<<0, 1, 64>>, <<1, 0, 64>>, <<0, 0, 0>>, <<65536, 1, 64>>, <<1, 65536, 64>>, <<65535, 2, 64>>,
            <<2, 65535, 64>>, <<32769, 32768, 2>>, <<-1, 1, 64>>, <<1, -1, 64>>, <<-2, -1, 64>>,
            <<2, 1, 0>>, <<2, 1, 1>>, <<2, 1, 63>>, <<2, 1, -1>>, <<0, 1, 63>>, <<-1, -1, -1>>}
           \cup (IF Big THEN {<<65537, 1, 64>>, <<1, 65537, 64>>, <<61441, 4096, 2>>, <<4096, 61441, 2>>,
                              <<3, 2, 129>>, <<3, 2, 65>>} ELSE {})
Configs == SmallCfgs \cup LargeCfgs \cup BadCfgs
Cfg0 == <<2, 1, 64 * Scale>>

Idxs == {0, 1, 2, 3, 65535, 65536, -2, -1} \cup (IF Big THEN {4, 5, 65537} ELSE {})
LenTags == {"sb", "sb+2", "sb-2", "0", "1"} \cup (IF Big THEN {"sb+1", "sb*2"} ELSE {})
LenOf(tag, sb) == CASE tag = "sb" -> sb [] tag = "sb+2" -> sb + 2 [] tag = "sb-2" -> sb - 2
                    [] tag = "0" -> 0 [] tag = "1" -> 1 [] tag = "sb+1" -> sb + 1 [] tag = "sb*2" -> sb * 2
Pays == {"a", "b"}

Addable == cfg.k <= 4 /\ cfg.r <= 4          \* model bound: shards are only added to small configurations

Init == InitWith(Kind0, Cfg0[1], Cfg0[2], Cfg0[3])
Next == \/ \E c \in Configs : Reset(c[1], c[2], c[3])
        \/ \E c \in Configs, kd \in Kinds : Rehouse(kd, c[1], c[2], c[3])
        \/ Addable /\ \E p \in Pays, t \in LenTags : EncAdd(p, LenOf(t, cfg.sb))
        \/ Addable /\ \E w \in {"original", "recovery"}, i \in Idxs, t \in LenTags : DecAdd(w, i, LenOf(t, cfg.sb))
        \/ Encode \/ Decode \/ IterAll \/ Drop
        \/ \E i \in Idxs : Query(i)
Spec == Init /\ [][Next]_vars

\* state identity: `held` is a history variable and `last` an observation
View == <<kind, cfg, rate, added, gotO, gotR, res>>
Proj == [kind |-> kind, k |-> cfg.k, r |-> cfg.r, sb |-> cfg.sb, rate |-> rate,
         added |-> added, gotO |-> gotO, gotR |-> gotR, res |-> res]
Emit == PrintT(<<"EDGE", ToJson([from |-> Proj, step |-> last', to |-> Proj'])>>)

NoopProp == [][FailureIsNoop]_vars
=============================================================================
