SPECIFICATION Spec
CONSTANT Pref <- PrefX86
INVARIANTS TypeOK OnlyReported AlwaysBest
CHECK_DEADLOCK FALSE
