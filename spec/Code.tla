-------------------------------- MODULE Code --------------------------------
(***************************************************************************)
(* The code itself: recovery symbols as a closed-form matrix product.      *)
(*                                                                         *)
(* With V_m = {w_0 .. w_(m-1)} (a GF(2)-subspace because m is a power of   *)
(* two and symbols add by xor),  s_m(x) = PROD_{u<m} (x + w_u)  is a       *)
(* linearised polynomial vanishing on V_m and  W_m = PROD_{0<u<m} w_u.     *)
(*                                                                         *)
(* High rate (m = next_power_of_two(recovery_count)): original i sits at   *)
(* point m+i; each chunk (a coset of V_m) is interpolated by a polynomial  *)
(* of degree < m and the sum of these is evaluated at the points 0..m-1:   *)
(*     G[j][i] = s_m(m+i) / (W_m * (j xor (m+i))).                         *)
(* Low rate (m = next_power_of_two(original_count)): the originals are     *)
(* interpolated on V_m itself and evaluated at the points m+j:             *)
(*     G[j][i] = s_m(m+j) / (W_m * ((m+j) xor i)).                         *)
(*                                                                         *)
(* No FFT, no skew table, none of the crate's tables: only GF.tla.         *)
(***************************************************************************)
EXTENDS GF

\* plain definitions
SM(m, x) == Prod({x ^^ u : u \in 0..(m-1)})
WM(m)    == Prod(1..(m-1))

\* s_m is GF(2)-linear: s_m(x) = XOR over the set bits b of x of s_m(2^(b-1)).
\* (checked against SM exhaustively on the small fields, on samples at 16 bits)
SMBasis(m)   == [b \in 1..Bits |-> SM(m, Pow2[b])]
SMLinB(sb, x) == FoldLeft(LAMBDA acc, b: IF (x \div Pow2[b]) % 2 = 1 THEN acc ^^ sb[b] ELSE acc, 0, BitIdx)
SMLin(m, x)  == SMLinB(SMBasis(m), x)

GHigh(k, r, j, i) == LET m == NPot(r) IN Div(SM(m, m + i), Mul(WM(m), j ^^ (m + i)))
GLow(k, r, j, i)  == LET m == NPot(k) IN Div(SM(m, m + j), Mul(WM(m), (m + j) ^^ i))
G(rate, k, r, j, i) == IF rate = "high" THEN GHigh(k, r, j, i) ELSE GLow(k, r, j, i)

\* d : sequence of k symbols (one slot of every original shard); result 0..r-1 -> symbol
Encode(rate, k, r, d) ==
  [j \in 0..(r-1) |-> XorSeq([i \in 1..k |-> Mul(G(rate, k, r, j, i-1), d[i])])]

(***************************************************************************)
(* The same matrix with the per-configuration factors hoisted, for large   *)
(* configurations: Pre(rate,k,r) is computed once per event.               *)
(*   high: A[i] = s_m(m+i)/W_m  (i < k)   G[j][i] = A[i] / (j xor (m+i))    *)
(*   low : A[j] = s_m(m+j)/W_m  (j < r)   G[j][i] = A[j] / ((m+j) xor i)    *)
(***************************************************************************)
\* (the bindings go through a set constructor: TLC binds such variables to evaluated values, whereas
\*  LET definitions may be re-evaluated at every use - here that would rebuild s_m's basis per entry)
PreM(rate, k, r) == IF rate = "high" THEN NPot(r) ELSE NPot(k)
PreN(rate, k, r) == IF rate = "high" THEN k ELSE r
Pre(rate, k, r) ==
  CHOOSE p \in {[m |-> m, a |-> TLCEval([t \in 0..(n-1) |-> Div(SMLinB(sb, m + t), w)])] :
                  m \in {PreM(rate, k, r)}, n \in {PreN(rate, k, r)},
                  sb \in {SMBasis(PreM(rate, k, r))}, w \in {WM(PreM(rate, k, r))}} : TRUE
GPre(rate, pre, j, i) ==
  IF rate = "high" THEN Div(pre.a[i], j ^^ (pre.m + i)) ELSE Div(pre.a[j], (pre.m + j) ^^ i)
EncodePre(rate, pre, k, j, d) == XorSeq([i \in 1..k |-> Mul(GPre(rate, pre, j, i-1), d[i])])

(***************************************************************************)
(* Decoding: any k of the k+r codeword symbols determine the data (MDS).   *)
(***************************************************************************)
Restorable(k, gO, gR) == Cardinality(gO) + Cardinality(gR) >= k
Missing(k, gO) == (0..(k-1)) \ gO
=============================================================================
