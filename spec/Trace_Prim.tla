----------------------------- MODULE Trace_Prim -----------------------------
(***************************************************************************)
(* Validation of recorded engine primitives and lookup tables against      *)
(* their mathematical contracts (LCH.tla over GF.tla at 16 bits):          *)
(*                                                                         *)
(*   table    every entry of Exp, Log, Skew, LogWalsh; sampled multipliers *)
(*            of Mul16 / Mul128                                            *)
(*   mul      out = in * g^log_m, symbol by symbol                         *)
(*   fft      out[pos+p] = value at the point skew_delta + p of the        *)
(*            polynomial whose LCH coefficients are in[pos..pos+size),     *)
(*            for p < truncated_size; nothing outside the range changes    *)
(*   ifft     the inverse: FFTSpec(out) = in whenever the inputs beyond    *)
(*            truncated_size are zero                                      *)
(*   evalpoly log of the erasure locator (or its derivative) at sampled    *)
(*            points, modulo 65535                                         *)
(*   xcase    one call run by every engine from identical input: equal on  *)
(*            the region the contract determines, input preserved outside  *)
(*            the range                                                    *)
(* Events are independent: star-shaped validation (see Trace_Code.tla).    *)
(***************************************************************************)
EXTENDS LCH, Json, IOUtils

Basis16 == <<1, 44234, 15374, 5694, 50562, 60718, 37196, 16402,
             27800, 4312, 27250, 47360, 64952, 64308, 65336, 39198>>

Rec == ndJsonDeserialize(IOEnv.TRACE)
N   == Len(Rec)

VARIABLES l, ph
vars == <<l, ph>>
Init == l = 0 /\ ph = 0
Next == \/ l = 0 /\ l' \in 1..N /\ ph' = 0
        \/ l > 0 /\ ph = 0 /\ ph' = 1 /\ l' = l
Spec == Init /\ [][Next]_vars

Has(e, f) == f \in DOMAIN e
Engines == {"naive", "nosimd", "ssse3", "avx2", "default", "neonemu"}

(***************************************************************************)
(* tables                                                                  *)
(***************************************************************************)
Byte(v, n) == (v \div (256^n)) % 256
TableOK(e) ==
  CASE e.name = "exp"      -> \A t \in DOMAIN e.vals : e.vals[t] = Exp[e.off + t - 1]
    [] e.name = "log"      -> \A t \in DOMAIN e.vals : e.vals[t] = Log[e.off + t - 1]
    [] e.name = "skew"     -> \A t \in DOMAIN e.vals :
                                 LET i == e.off + t - 1 IN
                                 /\ e.vals[t] = SkewLin(i)
                                 \* the plain definition on the cheap part of the table and on a spread of entries
                                 /\ ((i < 300 \/ i % 4099 = 0) => e.vals[t] = SkewDef(i))
    [] e.name = "logwalsh" -> \A t \in DOMAIN e.vals : Canon(e.vals[t]) = Canon(LogWalshDef[e.off + t - 1])
    [] e.name = "mul16"    -> /\ Len(e.rows) = 4
                              /\ \A n \in 0..3 : /\ Len(e.rows[n+1]) = 16
                                                 /\ \A i \in 0..15 : e.rows[n+1][i+1] = Mul16Spec(e.lm, n, i)
    [] e.name = "mul128"   -> /\ Len(e.lo) = 4 /\ Len(e.hi) = 4
                              /\ \A n \in 0..3 : \A i \in 0..15 :
                                    LET p == Mul16Spec(e.lm, n, i) IN
                                    /\ e.lo[n+1][i+1] = p % 256       \* little-endian lane: byte i is entry i
                                    /\ e.hi[n+1][i+1] = p \div 256
    [] OTHER -> FALSE

(***************************************************************************)
(* mul                                                                     *)
(***************************************************************************)
BlockSym(b, s) == b[s+1] + 256 * b[s+33]          \* slot s of a 64-byte block: low byte s, high byte 32+s
MulOK(e) ==
  /\ ~Has(e, "fail") /\ e.engine \in Engines
  /\ Len(e.out) = Len(e.in)
  /\ \A t \in DOMAIN e.in : /\ Len(e.out[t]) = 64
                            /\ \A s \in 0..31 : BlockSym(e.out[t], s) = MulLog(BlockSym(e.in[t], s), e.lm)

(***************************************************************************)
(* fft / ifft  (two symbol slots per position: fields in0/out0, in1/out1)  *)
(***************************************************************************)
Window(seq, pos, size) == [i \in 1..size |-> seq[pos + i]]
FrameOK(in, out, pos, size) == /\ Len(out) = Len(in)
                               /\ \A q \in 1..Len(in) : (q <= pos \/ q > pos + size) => out[q] = in[q]
FftOK(e) ==
  /\ ~Has(e, "fail") /\ e.engine \in Engines
  /\ \A io \in {<<e.in0, e.out0>>, <<e.in1, e.out1>>} :
        /\ FrameOK(io[1], io[2], e.pos, e.size)
        /\ \A c \in {Window(io[1], e.pos, e.size)} :
              \A p \in 0..(e.trunc - 1) : io[2][e.pos + p + 1] = FFTSpec(c, e.size, e.delta, p)
IfftOK(e) ==
  /\ ~Has(e, "fail") /\ e.engine \in Engines
  /\ \A io \in {<<e.in0, e.out0>>, <<e.in1, e.out1>>} :
        /\ FrameOK(io[1], io[2], e.pos, e.size)
        /\ \A p \in e.trunc..(e.size - 1) : io[1][e.pos + p + 1] = 0        \* the case the contract determines
        /\ \A c \in {Window(io[2], e.pos, e.size)} :
              \A p \in 0..(e.size - 1) : FFTSpec(c, e.size, e.delta, p) = io[1][e.pos + p + 1]

(***************************************************************************)
(* impulse: transforms of any size through impulse responses.  The FFT of  *)
(* the coefficient vector v * e_i is  v * X_i(skew_delta + p)  at output p *)
(* (p < truncated_size); the IFFT of those values (all of them, checked    *)
(* here against the same formula) is the impulse again.  Both slots 0 and  *)
(* 31 carry the same impulse.                                              *)
(***************************************************************************)
ImpulseVal(e, p) == Mul(e.v, XLin(e.i, e.delta ^^ p))
ImpulseOK(e) ==
  /\ ~Has(e, "fail") /\ e.engine \in Engines /\ e.i < e.size
  /\ Len(e.out0) = e.nsh /\ Len(e.out1) = e.nsh
  /\ IF e.prim = "fft"
     THEN \A q \in 1..e.nsh :
            IF q > e.pos /\ q <= e.pos + e.size
            THEN (q - e.pos - 1 < e.trunc) => (e.out0[q] = ImpulseVal(e, q - e.pos - 1) /\ e.out1[q] = e.out0[q])
            ELSE e.out0[q] = 0 /\ e.out1[q] = 0                                   \* nothing outside the range is touched
     ELSE /\ e.trunc = e.size
          /\ \A q \in 1..e.nsh :
                IF q > e.pos /\ q <= e.pos + e.size
                THEN /\ e.in0[q] = ImpulseVal(e, q - e.pos - 1)                    \* the input really is the value vector
                     /\ e.out0[q] = (IF q - e.pos - 1 = e.i THEN e.v ELSE 0) /\ e.out1[q] = e.out0[q]
                ELSE e.out0[q] = 0 /\ e.out1[q] = 0

(***************************************************************************)
(* eval_poly                                                               *)
(***************************************************************************)
SeqSet(s) == {s[t] : t \in DOMAIN s}
EvalOK(e) ==
  /\ ~Has(e, "fail") /\ e.engine \in Engines
  /\ \A m \in SeqSet(e.marks) : m < e.trunc                         \* truncated_size covers the non-zero entries
  /\ \A marks \in {SeqSet(e.marks)} :
        \A t \in DOMAIN e.pts : Canon(e.pts[t][2]) = Canon(EvalPolySpec(marks, e.pts[t][1]))

(***************************************************************************)
(* xcase: all engines, identical input                                     *)
(***************************************************************************)
XcaseOK(e) ==
  /\ DOMAIN e.outs \subseteq Engines /\ "naive" \in DOMAIN e.outs /\ Cardinality(DOMAIN e.outs) >= 2
  /\ ~Has(e, "fails")                                   \* no engine panicked
  /\ LET ref == e.outs["naive"] IN
     IF e.prim = "evalpoly" THEN \A g \in DOMAIN e.outs : e.outs[g] = ref
     ELSE IF e.big
     THEN \* three region digests: before the range, the determined part, after the determined part
          /\ e.lo = e.pos /\ e.hi = (IF e.prim = "fft" THEN e.pos + e.trunc ELSE e.pos + e.size)
          /\ \A g \in DOMAIN e.outs :
                /\ e.outs[g][1] = e.din[1] /\ e.outs[g][3] = e.din[3]
                /\ e.outs[g][2] = ref[2]
     ELSE LET detHi == IF e.prim = "fft" THEN e.pos + e.trunc ELSE e.pos + e.size IN
          \A g \in DOMAIN e.outs :
             /\ Len(e.outs[g]) = e.nsh
             /\ \A q \in 1..e.nsh :
                   /\ ((q <= e.pos \/ q > e.pos + e.size) => e.outs[g][q] = e.din[q])     \* only the range changes
                   /\ ((q > e.pos /\ q <= detHi) => e.outs[g][q] = ref[q])                \* bit-identical where determined

\* the complete tables of a process started under another CPU affinity equal those of the unrestricted process of the same
\* run (whose entries are validated one by one above): table construction does not depend on the environment
TableDigOK(e) == e.digs = e.base

EventOK(e) ==
  CASE e.ev = "table"    -> TableOK(e)
    [] e.ev = "tabledig" -> TableDigOK(e)
    [] e.ev = "mul"      -> MulOK(e)
    [] e.ev = "fft"      -> FftOK(e)
    [] e.ev = "ifft"     -> IfftOK(e)
    [] e.ev = "impulse"  -> ImpulseOK(e)
    [] e.ev = "evalpoly" -> EvalOK(e)
    [] e.ev = "xcase"    -> XcaseOK(e)
    [] OTHER -> FALSE
TraceInv == ph = 1 => \A e \in {Rec[l]} : EventOK(e)
AllSeen == TLCGet("stats").distinct = 2 * N + 1
=============================================================================
