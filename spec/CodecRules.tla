----------------------------- MODULE CodecRules -----------------------------
(***************************************************************************)
(* The documented preconditions of every public call, as pure operators:   *)
(* for a call and the object state it is made in, the SET of violated      *)
(* preconditions, each written as the Error value that truthfully reports  *)
(* it.  A call must return Ok iff the set is empty, and otherwise one of   *)
(* its members (which one is deliberately left open: a refactoring that    *)
(* reorders checks must not raise an alarm).  Used by Codec.tla (object    *)
(* protocol) and OneShot.tla (the one-shot functions).                     *)
(*                                                                         *)
(* usize values that do not fit TLC's integers are encoded as negative     *)
(* numbers: -(usize::MAX - v) - 1, so -1 = MAX, -2 = MAX - 1, ...          *)
(***************************************************************************)
EXTENDS Envelope, Integers, Sequences, FiniteSets, TLC

Huge(v) == v < 0
Ge(a, b) == Huge(a) \/ (~Huge(b) /\ a >= b)        \* a >= b on encoded values (b never huge here)
IsOdd(v) == IF v >= 0 THEN v % 2 = 1 ELSE (0 - v - 1) % 2 = 0   \* usize::MAX is odd
BadSize(sb) == sb = 0 \/ IsOdd(sb)
Max2(a, b) == IF a > b THEN a ELSE b

\* supports on encoded values: a huge count is never supported
SupportsE(kind, k, r) == ~Huge(k) /\ ~Huge(r) /\ k <= EOrder /\ r <= EOrder /\ Supports(kind, k, r)
SuppKind(kind) == IF kind = "rs" THEN "default" ELSE kind


OK == {[ok |-> TRUE]}
AllowedOf(violations) == IF violations = {} THEN OK ELSE violations

ConfigViolations(kd, k, r, sb) ==
     (IF ~SupportsE(SuppKind(kd), k, r)
      THEN {[err |-> "UnsupportedShardCount", original_count |-> k, recovery_count |-> r]} ELSE {})
\cup (IF BadSize(sb) THEN {[err |-> "InvalidShardSize", shard_bytes |-> sb]} ELSE {})

\* encoder: adding a shard of length len when n shards were already added
EncAddViolations(k, sb, n, len) ==
     (IF n = k THEN {[err |-> "TooManyOriginalShards", original_count |-> k]} ELSE {})
\cup (IF len # sb THEN {[err |-> "DifferentShardSize", shard_bytes |-> sb, got |-> len]} ELSE {})
EncodeViolations(k, n) ==
  IF n = k THEN {} ELSE {[err |-> "TooFewOriginalShards", original_count |-> k, original_received_count |-> n]}

\* decoder: adding shard (which, i) of length len when the index set `got` of that sort was received
DecAddViolations(which, cnt, sb, got, i, len) ==
     (IF Ge(i, cnt) THEN {IF which = "original"
                          THEN [err |-> "InvalidOriginalShardIndex", original_count |-> cnt, index |-> i]
                          ELSE [err |-> "InvalidRecoveryShardIndex", recovery_count |-> cnt, index |-> i]} ELSE {})
\cup (IF i \in got THEN {[err |-> IF which = "original" THEN "DuplicateOriginalShardIndex"
                                                        ELSE "DuplicateRecoveryShardIndex", index |-> i]} ELSE {})
\cup (IF len # sb THEN {[err |-> "DifferentShardSize", shard_bytes |-> sb, got |-> len]} ELSE {})
DecodeViolations(k, nO, nR) ==
  IF nO + nR >= k THEN {}
  ELSE {[err |-> "NotEnoughShards", original_count |-> k, original_received_count |-> nO, recovery_received_count |-> nR]}

(***************************************************************************)
(* The documented text of every error (impl Display for Error), from the   *)
(* error's own fields.  Only evaluated when no field is an encoded huge    *)
(* value.                                                                  *)
(***************************************************************************)
NumStr(n) == ToString(n)
ErrorText(e) ==
  CASE e.err = "DifferentShardSize" ->
         "different shard size: expected " \o NumStr(e.shard_bytes) \o " bytes, got " \o NumStr(e.got) \o " bytes"
    [] e.err = "DuplicateOriginalShardIndex" -> "duplicate original shard index: " \o NumStr(e.index)
    [] e.err = "DuplicateRecoveryShardIndex" -> "duplicate recovery shard index: " \o NumStr(e.index)
    [] e.err = "InvalidOriginalShardIndex" ->
         "invalid original shard index: " \o NumStr(e.index) \o " >= original_count " \o NumStr(e.original_count)
    [] e.err = "InvalidRecoveryShardIndex" ->
         "invalid recovery shard index: " \o NumStr(e.index) \o " >= recovery_count " \o NumStr(e.recovery_count)
    [] e.err = "InvalidShardSize" ->
         "invalid shard size: " \o NumStr(e.shard_bytes) \o " bytes (must non-zero and multiple of 2)"
    [] e.err = "NotEnoughShards" ->
         "not enough shards: " \o NumStr(e.original_received_count) \o " original + " \o NumStr(e.recovery_received_count)
           \o " recovery < " \o NumStr(e.original_count) \o " original_count"
    [] e.err = "TooFewOriginalShards" ->
         "too few original shards: got " \o NumStr(e.original_received_count) \o " shards while original_count is "
           \o NumStr(e.original_count)
    [] e.err = "TooManyOriginalShards" ->
         "too many original shards: got more than original_count (" \o NumStr(e.original_count) \o ") shards"
    [] e.err = "UnsupportedShardCount" ->
         "unsupported shard count: " \o NumStr(e.original_count) \o " original shards with " \o NumStr(e.recovery_count)
           \o " recovery shards"
NoHugeField(e) == \A f \in DOMAIN e : f = "err" \/ ~Huge(e[f])
=============================================================================
