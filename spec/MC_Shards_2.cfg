SPECIFICATION Spec
CONSTANTS Palette = 1
          Depth = 2
INVARIANTS ShTypeOK Nested RootClosed EmitScript
PROPERTY FrameProp
CHECK_DEADLOCK FALSE
