------------------------------- MODULE Shards -------------------------------
(***************************************************************************)
(* The working space an engine sees: engine::ShardsRefMut and the XOR      *)
(* helpers engine::utils::{xor, xor_within} - the public interface a       *)
(* custom Engine is written against, and what every provided engine's      *)
(* fft/ifft and the decoders' formal derivative are built on.              *)
(*                                                                         *)
(* A view is `count` shards of `len` 64-byte chunks laid out flat, one     *)
(* shard after the other, inside a buffer of `Len(flat)` chunks.  The      *)
(* content of a chunk is abstracted to the set of ATOMS XORed into it      *)
(* (XOR over GF(2) = symmetric difference; the all-zero chunk = {}): the   *)
(* harness starts every chunk p with its own bit p set, so the bytes of a  *)
(* chunk ARE that set.  Only legal calls are modelled - what an illegal    *)
(* call does (which panic, in which build profile) is not part of any      *)
(* listed property.                                                        *)
(*                                                                         *)
(* Nothing is assumed about WHERE the buffer lies: a chunk is a [u8; 64],   *)
(* alignment 1, so a caller-owned working space may start at any address   *)
(* (the harness also runs the primitives on buffers at odd addresses).     *)
(*                                                                         *)
(* split_at_mut is modelled as a stack of views: Split pushes the chosen   *)
(* half, Pop returns to the parent, whose chunks show what the child did.  *)
(***************************************************************************)
EXTENDS Integers, Sequences, FiniteSets

VARIABLES flat,    \* 1-based sequence: chunk position p (0-based) is flat[p + 1]; a set of atoms each
          views,   \* stack of [off, count, len]: off = 0-based chunk offset of the view inside flat
          obs      \* what the last call returned / did: [op |-> .., ...]

svars == <<flat, views, obs>>

SymDiff(a, b) == (a \ b) \cup (b \ a)
Top == views[Len(views)]
Total(v) == v.count * v.len                         \* chunks of the view's data slice
At(f, v, q) == f[v.off + q + 1]                     \* chunk q (0-based, flat inside the view)
\* the chunks of shard i of view v, in order
ShardOf(f, v, i) == [t \in 1..v.len |-> At(f, v, i * v.len + t - 1)]

\* f with chunk q of view v replaced by c, for every q in the domain of the function upd (q |-> new content)
Upd(f, v, upd) == [p \in DOMAIN f |-> IF (p - 1 - v.off) \in DOMAIN upd /\ p - 1 >= v.off THEN upd[p - 1 - v.off] ELSE f[p]]

InitNew(total, count, len) ==
  /\ total >= count * len                            \* ShardsRefMut::new: "Panics if data.len() < shard_count * shard_len_64"
  /\ flat = [p \in 1..total |-> {p - 1}]
  /\ views = <<[off |-> 0, count |-> count, len |-> len]>>
  /\ obs = [op |-> "new"]

(***************************************************************************)
(* Legality of each call = the slice operations in its body succeed.       *)
(***************************************************************************)
ZeroStart(v, sk, a) == CASE sk = "incl" -> a * v.len [] sk = "excl" -> (a + 1) * v.len [] sk = "unb" -> 0
ZeroEnd(v, ek, b)   == CASE ek = "incl" -> (b + 1) * v.len [] ek = "excl" -> b * v.len [] ek = "unb" -> Total(v)
ZeroLegal(v, sk, a, ek, b) == ZeroStart(v, sk, a) <= ZeroEnd(v, ek, b) /\ ZeroEnd(v, ek, b) <= Total(v)

\* flat2_mut(x, y, count): two disjoint shard ranges inside the view
WithinLegal(v, x, y, c) ==
  IF x < y THEN y * v.len <= Total(v) /\ (x + c) * v.len <= y * v.len /\ c * v.len <= Total(v) - y * v.len
           ELSE x * v.len <= Total(v) /\ c * v.len <= Total(v) - x * v.len /\ (y + c) * v.len <= x * v.len

\* dist2_mut(pos, dist): shards pos and pos + dist ("Panics if dist is 0")
Dist2Legal(v, pos, dist) == (pos + dist + 1) * v.len <= Total(v) /\ v.len <= dist * v.len
\* dist4_mut(pos, dist): shards pos, pos + dist, pos + 2 dist, pos + 3 dist
Dist4Legal(v, pos, dist) == (pos + 3 * dist + 1) * v.len <= Total(v) /\ v.len <= dist * v.len

IndexLegal(v, i) == (i + 1) * v.len <= Total(v)
SplitLegal(v, mid) == mid <= v.count

(***************************************************************************)
(* Actions on the top view.                                                *)
(***************************************************************************)
\* zero(range): every chunk of the shard range becomes the zero chunk
Zero(sk, a, ek, b) ==
  /\ ZeroLegal(Top, sk, a, ek, b)
  /\ LET s == ZeroStart(Top, sk, a)  e == ZeroEnd(Top, ek, b) IN
     flat' = Upd(flat, Top, [q \in s..(e - 1) |-> {}])
  /\ UNCHANGED views
  /\ obs' = [op |-> "zero"]

\* utils::xor_within(data, x, y, c): data[x .. x + c] ^= data[y .. y + c]
XorWithin(x, y, c) ==
  /\ WithinLegal(Top, x, y, c)
  /\ LET n == c * Top.len IN
     flat' = Upd(flat, Top, [q \in (x * Top.len)..(x * Top.len + n - 1) |->
                               SymDiff(At(flat, Top, q), At(flat, Top, q - x * Top.len + y * Top.len))])
  /\ UNCHANGED views
  /\ obs' = [op |-> "xor_within"]

\* (a, b) = dist2_mut(pos, dist);  dir "ab": utils::xor(a, b)  (a ^= b);  dir "ba": utils::xor(b, a)
Dist2(pos, dist, dir) ==
  /\ Dist2Legal(Top, pos, dist)
  /\ LET L == Top.len  pa == pos * L  pb == (pos + dist) * L
         dst == IF dir = "ab" THEN pa ELSE pb   src == IF dir = "ab" THEN pb ELSE pa IN
     flat' = Upd(flat, Top, [q \in dst..(dst + L - 1) |-> SymDiff(At(flat, Top, q), At(flat, Top, q - dst + src))])
  /\ UNCHANGED views
  /\ obs' = [op |-> "dist2"]

\* (a, b, c, d) = dist4_mut(pos, dist);  b ^= a; c ^= b; d ^= c  (a chain: every slice and its order is observable)
Dist4(pos, dist) ==
  /\ Dist4Legal(Top, pos, dist)
  /\ LET L == Top.len
         P(n) == (pos + n * dist) * L
         A(t) == At(flat, Top, P(0) + t)
         B(t) == SymDiff(At(flat, Top, P(1) + t), A(t))
         C(t) == SymDiff(At(flat, Top, P(2) + t), B(t))
         D(t) == SymDiff(At(flat, Top, P(3) + t), C(t))
         new == [q \in UNION {P(n)..(P(n) + L - 1) : n \in 1..3} |->
                    IF q < P(2) THEN B(q - P(1)) ELSE IF q < P(3) THEN C(q - P(2)) ELSE D(q - P(3))] IN
     flat' = Upd(flat, Top, new)
  /\ UNCHANGED views
  /\ obs' = [op |-> "dist4"]

\* data[i]: reading a shard
Index(i) ==
  /\ IndexLegal(Top, i)
  /\ UNCHANGED <<flat, views>>
  /\ obs' = [op |-> "index", shard |-> ShardOf(flat, Top, i)]

\* data[i] (IndexMut): writing a shard - the harness zero-fills it
IndexZero(i) ==
  /\ IndexLegal(Top, i)
  /\ flat' = Upd(flat, Top, [q \in (i * Top.len)..((i + 1) * Top.len - 1) |-> {}])
  /\ UNCHANGED views
  /\ obs' = [op |-> "index_zero"]

\* len() / is_empty()
Query ==
  /\ UNCHANGED <<flat, views>>
  /\ obs' = [op |-> "query", len |-> Top.count, empty |-> (Top.count = 0)]

\* split_at_mut(mid): first half = shards 0..mid, second = shards mid.. ; continue on one of them
Split(mid, side) ==
  /\ SplitLegal(Top, mid)
  /\ views' = Append(views, IF side = "first" THEN [off |-> Top.off, count |-> mid, len |-> Top.len]
                            ELSE [off |-> Top.off + mid * Top.len, count |-> Top.count - mid, len |-> Top.len])
  /\ UNCHANGED flat
  /\ obs' = [op |-> "split", len |-> IF side = "first" THEN mid ELSE Top.count - mid]

\* the borrow of the half ends: back to the parent view
Pop ==
  /\ Len(views) > 1
  /\ views' = SubSeq(views, 1, Len(views) - 1)
  /\ UNCHANGED flat
  /\ obs' = [op |-> "pop", len |-> views[Len(views) - 1].count]

(***************************************************************************)
(* What the design promises.                                               *)
(***************************************************************************)
InView(p, v) == v.off <= p /\ p < v.off + Total(v)       \* 0-based chunk position p lies in view v
Root == views[1]

ShTypeOK == /\ \A p \in DOMAIN flat : flat[p] \subseteq 0..(Len(flat) - 1)
            /\ \A t \in DOMAIN views : views[t].off + Total(views[t]) <= Len(flat)

\* views nest: a half lies inside its parent, shard-aligned
Nested == \A t \in 2..Len(views) :
            /\ views[t].len = views[t - 1].len
            /\ views[t].off >= views[t - 1].off
            /\ views[t].off + Total(views[t]) <= views[t - 1].off + Total(views[t - 1])
            /\ (views[t].len > 0 => (views[t].off - views[t - 1].off) % views[t].len = 0)

\* nothing outside the root view is ever read into it or written
RootClosed == \A p \in DOMAIN flat :
                IF InView(p - 1, Root) THEN \A a \in flat[p] : InView(a, Root) ELSE flat[p] = {p - 1}

\* a call touches only chunks of the view it was made on
FrameStep == \A p \in DOMAIN flat : (~InView(p - 1, Top)) => flat'[p] = flat[p]

\* XOR steps are involutions and keep the chunks of the view linearly independent unless something was zeroed:
\* here only the cheap consequence that no atom ever appears from outside the view it is in
AtomsStayInTop == \A p \in DOMAIN flat : InView(p - 1, Top) =>
                     \A a \in flat'[p] : (a \in flat[p] \/ \E q \in DOMAIN flat : InView(q - 1, Top) /\ a \in flat[q])
=============================================================================
