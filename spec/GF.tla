--------------------------------- MODULE GF ---------------------------------
(***************************************************************************)
(* The finite field GF(2^Bits) exactly as reed-solomon-simd represents it. *)
(*                                                                         *)
(*  - field polynomial Poly (0x1002D for the real code),                   *)
(*  - symbols are coordinates in the Cantor basis Basis: symbol i stands   *)
(*    for the field element  w_i = XOR of Basis[b] over the set bits b of  *)
(*    i, so that addition of symbols is plain xor,                         *)
(*  - multiplication goes through discrete logarithms to the generator 2   *)
(*    of the polynomial representation (an LFSR).                          *)
(*                                                                         *)
(* Everything here is a constant-level operator that TLC evaluates; the    *)
(* tables are built once at start-up (no RECURSIVE operator anywhere: TLC  *)
(* silently stops caching constants that depend on one).                   *)
(***************************************************************************)
EXTENDS Pow, Naturals, Sequences, Bitwise, FiniteSets, FiniteSetsExt, SequencesExt, Functions, TLC

\* Bits (field width, 16 for the real code) is declared in Pow
CONSTANTS Poly,   \* field polynomial including the leading bit
          Basis   \* Basis[b], b \in 1..Bits : the Cantor basis

Order   == 2^Bits
Modulus == Order - 1
BitIdx  == [b \in 1..Bits |-> b]
Pow2    == [b \in 1..(Bits+1) |-> 2^(b-1)]
Sym     == 0..(Order-1)

(***************************************************************************)
(* LFSR powers of the generator, built as rows so that no sequence longer  *)
(* than RowLen is ever appended to (Append copies).                        *)
(***************************************************************************)
Step(s)  == LET t == s * 2 IN IF t >= Order THEN t ^^ Poly ELSE t
RowLen   == 2^((Bits + 1) \div 2)
RowCount == (Order \div RowLen)
RowIdx   == [i \in 1..(RowLen-1) |-> i]
MkRow(start) == FoldLeft(LAMBDA acc, i: Append(acc, Step(acc[Len(acc)])), <<start>>, RowIdx)
Rows == FoldLeft(LAMBDA acc, i: Append(acc, MkRow(Step(acc[Len(acc)][RowLen]))),
                 <<MkRow(1)>>, [i \in 1..(RowCount-1) |-> i])
PExp == [e \in 0..(Modulus-1) |-> Rows[(e \div RowLen) + 1][(e % RowLen) + 1]]
\* inverse of a bijection f from the interval lo..hi onto an interval of the same length starting at base, as a function
\* on that interval: the pairs <<f[x], x>> sorted by their first component (AntiFunction normalises a 65 535-element
\* domain quadratically; sorting is n log n)
InverseOnto(f, lo, hi, base) ==
  LET pairs == SetToSortSeq({<<f[x], x>> : x \in lo..hi}, LAMBDA a, b: a[1] < b[1])
  IN [y \in base..(base + hi - lo) |-> pairs[y - base + 1][2]]
PLog == InverseOnto(PExp, 0, Modulus - 1, 1)          \* polynomial representation (1..Modulus) -> exponent

(***************************************************************************)
(* Cantor-basis symbols.                                                   *)
(***************************************************************************)
ToPolyDef(i) == FoldLeft(LAMBDA acc, b: IF (i \div Pow2[b]) % 2 = 1 THEN acc ^^ Basis[b] ELSE acc, 0, BitIdx)
\* the same map as a table built by doubling (T_{b} = T_{b-1} followed by T_{b-1} xor Basis[b]): 2^Bits steps instead of Bits * 2^Bits
ToPolySeq == FoldLeft(LAMBDA acc, b: acc \o [t \in 1..Len(acc) |-> acc[t] ^^ Basis[b]], <<0>>, BitIdx)
ToPoly(i) == ToPolySeq[i + 1]

\* The public tables::Log / tables::Exp contract.
Log   == [i \in Sym |-> IF i = 0 THEN Modulus ELSE PLog[ToPoly(i)]]
LogNZ == [i \in 1..(Order-1) |-> Log[i]]
Exp0  == InverseOnto(LogNZ, 1, Order - 1, 0)     \* exponent 0..Modulus-1 -> symbol, interval domain (O(1) lookups)
Exp   == [e \in Sym |-> IF e = Modulus THEN Exp0[0] ELSE Exp0[e]]

Canon(v)     == IF v = Modulus THEN 0 ELSE v
AddMod(a, b) == LET s == a + b IN IF s >= Modulus THEN s - Modulus ELSE s
SubMod(a, b) == IF a >= b THEN a - b ELSE a + Modulus - b

Mul(a, b)     == IF a = 0 \/ b = 0 THEN 0 ELSE Exp0[AddMod(Log[a], Log[b])]
Div(a, b)     == IF a = 0 THEN 0 ELSE Exp0[SubMod(Log[a], Log[b])]      \* b # 0
GInv(b)       == Exp0[SubMod(0, Log[b])]
\* The engine primitive: multiply by g^lm; lm = Modulus is g^0 = 1.
MulLog(a, lm) == IF a = 0 THEN 0 ELSE Exp0[AddMod(Log[a], Canon(lm))]
\* Inside butterflies the skew value Modulus means "factor zero".
SkewMul(a, lm) == IF lm = Modulus THEN 0 ELSE MulLog(a, lm)
Prod(SS)      == FoldSet(LAMBDA e, acc: Mul(acc, e), 1, SS)
XorSeq(seq)   == FoldLeft(LAMBDA a, e: a ^^ e, 0, seq)
XorSet(f(_), SS) == FoldSet(LAMBDA e, acc: acc ^^ f(e), 0, SS)

=============================================================================
