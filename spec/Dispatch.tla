------------------------------ MODULE Dispatch ------------------------------
(***************************************************************************)
(* Runtime selection of SIMD code by the default engine.                   *)
(*                                                                         *)
(* The CPU reports a set of features (fixed for a run).  There are two     *)
(* independent detection sites: construction of DefaultEngine (which fixes *)
(* the engine behind fft / ifft / mul) and the associated function         *)
(* eval_poly (which detects again at every call, e.g. inside decode).      *)
(* Both must pick the most capable reported instruction set, and fall back *)
(* to portable code when none is reported; code compiled for an            *)
(* instruction set that is not reported must never run.                    *)
(***************************************************************************)
EXTENDS Naturals, Sequences, FiniteSets, TLC

CONSTANTS Pref          \* instruction sets of this architecture, most capable first, e.g. <<"avx2", "ssse3">>

Isas == {Pref[i] : i \in DOMAIN Pref}
\* the most capable reported instruction set, or "portable"
Best(rep) == IF rep \cap Isas = {} THEN "portable"
             ELSE Pref[CHOOSE i \in DOMAIN Pref : Pref[i] \in rep /\ \A j \in DOMAIN Pref : (j < i) => Pref[j] \notin rep]

Prims == {"fft", "ifft", "mul"}

VARIABLES reported,   \* what the CPU reports (subset of Isas)
          engine,     \* "none" before construction, else the instruction set chosen at construction
          ran         \* set of <<entry point, instruction set>> pairs executed so far
vars == <<reported, engine, ran>>

Init == reported \in SUBSET Isas /\ engine = "none" /\ ran = {}

Construct == /\ engine' = Best(reported)
             /\ UNCHANGED <<reported, ran>>
\* a primitive of the constructed engine
Call(p) == /\ engine # "none" /\ p \in Prims
           /\ ran' = ran \cup {<<p, engine>>}
           /\ UNCHANGED <<reported, engine>>
\* eval_poly detects on its own, at the call
EvalPoly == /\ ran' = ran \cup {<<"eval_poly", Best(reported)>>}
            /\ UNCHANGED <<reported, engine>>
Next == Construct \/ (\E p \in Prims : Call(p)) \/ EvalPoly
Spec == Init /\ [][Next]_vars

\* only code compiled for reported features runs, and it is the best reported one - for every entry point
OnlyReported == \A x \in ran : x[2] = "portable" \/ x[2] \in reported
AlwaysBest   == \A x \in ran : x[2] = Best(reported)
TypeOK == engine \in Isas \cup {"none", "portable"} /\ reported \subseteq Isas
=============================================================================
