------------------------------- MODULE GFCheck -------------------------------
(* Independent cross-checks of GF.tla (kept out of GF so that specifications   *)
(* that only need the arithmetic do not pay for them at start-up).             *)
EXTENDS GF

(***************************************************************************)
(* Independent shift-and-xor product, used only to cross-check Mul.        *)
(***************************************************************************)
PMulPoly(a, b) ==
  LET st == FoldLeft(LAMBDA acc, k:
                 [r |-> IF (b \div Pow2[k]) % 2 = 1 THEN acc.r ^^ acc.a ELSE acc.r,
                  a |-> Step(acc.a)],
               [r |-> 0, a |-> a], BitIdx)
  IN st.r
FromPolyTab == InverseOnto([i \in Sym |-> ToPoly(i)], 0, Order - 1, 0)
PMul(a, b) == FromPolyTab[PMulPoly(ToPoly(a), ToPoly(b))]

(***************************************************************************)
(* Facts about the constants (checked by the MC_Field models).             *)
(***************************************************************************)
\* Basis is a Cantor basis: v_1 = 1 and v_b^2 + v_b = v_(b-1)  (polynomial representation).
CantorOK == /\ Basis[1] = 1
            /\ \A b \in 2..Bits : PMulPoly(Basis[b], Basis[b]) ^^ Basis[b] = Basis[b-1]
\* ToPoly is a bijection (Basis really is a basis) and the generator is primitive.
\* the doubling table equals the bitwise definition
ToPolyOK    == \A i \in Sym : ToPoly(i) = ToPolyDef(i)
BasisOK     == Cardinality({ToPoly(i) : i \in Sym}) = Order
PrimitiveOK == Cardinality({PExp[e] : e \in 0..(Modulus-1)}) = Modulus
=============================================================================
