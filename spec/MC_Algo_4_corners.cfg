SPECIFICATION Spec
CONSTANTS Bits = 4
          Poly = 19
          Basis <- BasisFor
          MaxN = 0
          MaxCfg = 0
          Corners = TRUE
INVARIANTS EncInv DecInv
CHECK_DEADLOCK FALSE
