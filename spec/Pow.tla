--------------------------------- MODULE Pow ---------------------------------
(* Powers of two up to the field order; next_power_of_two.                    *)
EXTENDS Naturals
CONSTANT Bits          \* field width: the field has 2^Bits elements
Pow2Set == {2^e : e \in 0..Bits}
\* usize::next_power_of_two for 1 <= n <= 2^Bits  (and 1 for n = 0, like Rust)
NPot(n) == CHOOSE q \in Pow2Set : q >= n /\ (q = 1 \/ q \div 2 < n)
=============================================================================
