------------------------------ MODULE DecWork ------------------------------
(***************************************************************************)
(* Implementation-shaped bookkeeping of a decoder's working space          *)
(* (src/rate/decoder_work.rs): ONE bitmap over work positions shared by    *)
(* originals and recovery shards, two base positions fixed by the rate,    *)
(* two counters.  Codec.tla abstracts all of this into the two sets        *)
(* gotO / gotR; this module is the refinement argument: the sets are       *)
(* recovered from the bitmap through the base positions (AbsO, AbsR), the  *)
(* counters are their cardinalities, and every decision the code takes     *)
(* from bitmap and counters (duplicate, not-enough, nothing-to-restore,    *)
(* which originals are restored) is the decision Codec.tla takes from      *)
(* the sets.  It is what makes C05 / C07 / C11 / C12 hold at the level     *)
(* of the bookkeeping:                                                     *)
(*   - reset() and reset_received() clear the whole bitmap (clear keeps    *)
(*     the length, grow only when too short: "may contain extra zero       *)
(*     bits"), so no bit of an earlier round or configuration survives;    *)
(*   - the two index ranges never overlap and fit the bitmap and the       *)
(*     work positions, so an original can never be taken for a recovery    *)
(*     shard of another index;                                             *)
(*   - a failing add changes nothing.                                      *)
(* One action = one crate-internal call of DecoderWork.                    *)
(***************************************************************************)
EXTENDS Envelope, FiniteSets, Naturals

CONSTANTS MaxK, MaxR      \* bounds of the model (configurations 1..MaxK x 1..MaxR, both rates)

VARIABLES k, r, rate,     \* configuration
          obase, rbase,   \* base positions
          wc,             \* work positions of the shard memory
          bits,           \* positions whose bit is set
          blen,           \* length of the bitmap (never shrinks)
          ocnt, rcnt,     \* counters
          live,           \* a DecoderResult borrows the work
          ret             \* what the last call returned (observation)
vars == <<k, r, rate, obase, rbase, wc, bits, blen, ocnt, rcnt, live, ret>>

\* the configurations the dedicated decoders accept (validate() before reset)
Cfgs == {c \in [k : 1..MaxK, r : 1..MaxR, rate : {"high", "low"}] :
           IF c.rate = "high" THEN HighSupports(c.k, c.r) ELSE LowSupports(c.k, c.r)}

OBase(rt, kk, rr) == IF rt = "high" THEN NPot(rr) ELSE 0
RBase(rt, kk, rr) == IF rt = "high" THEN 0 ELSE NPot(kk)

\* the abstraction function onto Codec.tla's sets
AbsO == {i \in 0..(k - 1) : (obase + i) \in bits}
AbsR == {i \in 0..(r - 1) : (rbase + i) \in bits}

ResetTo(c) ==
  /\ k' = c.k /\ r' = c.r /\ rate' = c.rate
  /\ obase' = OBase(c.rate, c.k, c.r) /\ rbase' = RBase(c.rate, c.k, c.r)
  /\ wc' = WorkCountDec(c.rate, c.k, c.r)
  /\ ocnt' = 0 /\ rcnt' = 0
  /\ bits' = {}                                                     \* received.clear()
  /\ blen' = LET need == IF OBase(c.rate, c.k, c.r) + c.k > RBase(c.rate, c.k, c.r) + c.r
                         THEN OBase(c.rate, c.k, c.r) + c.k ELSE RBase(c.rate, c.k, c.r) + c.r
             IN IF blen < need THEN need ELSE blen                  \* grow only when shorter
  /\ ret' = "ok"

Init ==
  /\ k = 0 /\ r = 0 /\ rate = "high" /\ obase = 0 /\ rbase = 0 /\ wc = 0
  /\ bits = {} /\ blen = 0 /\ ocnt = 0 /\ rcnt = 0 /\ live = FALSE /\ ret = "new"

Reset(c) == ~live /\ ResetTo(c) /\ UNCHANGED live

\* indexes one beyond the range and shards of another size are offered too (the error paths, in the code's order:
\* index, duplicate, size)
AddOriginal(i, szok) ==
  /\ ~live
  /\ IF i >= k THEN ret' = "invalid_index" /\ UNCHANGED <<bits, ocnt>>
     ELSE IF (obase + i) \in bits THEN ret' = "duplicate" /\ UNCHANGED <<bits, ocnt>>
     ELSE IF ~szok THEN ret' = "different_size" /\ UNCHANGED <<bits, ocnt>>
     ELSE bits' = bits \cup {obase + i} /\ ocnt' = ocnt + 1 /\ ret' = "ok"
  /\ UNCHANGED <<k, r, rate, obase, rbase, wc, blen, rcnt, live>>

AddRecovery(i, szok) ==
  /\ ~live
  /\ IF i >= r THEN ret' = "invalid_index" /\ UNCHANGED <<bits, rcnt>>
     ELSE IF (rbase + i) \in bits THEN ret' = "duplicate" /\ UNCHANGED <<bits, rcnt>>
     ELSE IF ~szok THEN ret' = "different_size" /\ UNCHANGED <<bits, rcnt>>
     ELSE bits' = bits \cup {rbase + i} /\ rcnt' = rcnt + 1 /\ ret' = "ok"
  /\ UNCHANGED <<k, r, rate, obase, rbase, wc, blen, ocnt, live>>

Decode ==
  /\ ~live /\ k > 0
  /\ IF ocnt + rcnt < k THEN ret' = "not_enough" /\ UNCHANGED live
     ELSE IF ocnt = k THEN ret' = "ok_nothing" /\ live' = TRUE
     ELSE ret' = "ok_restore" /\ live' = TRUE
  /\ UNCHANGED <<k, r, rate, obase, rbase, wc, bits, blen, ocnt, rcnt>>

\* DecoderResult::drop -> reset_received
Drop ==
  /\ live /\ live' = FALSE
  /\ bits' = {} /\ ocnt' = 0 /\ rcnt' = 0 /\ ret' = "ok"
  /\ UNCHANGED <<k, r, rate, obase, rbase, wc, blen>>

Next ==
  \/ \E c \in Cfgs : Reset(c)
  \/ \E i \in 0..MaxK, szok \in BOOLEAN : AddOriginal(i, szok)
  \/ \E i \in 0..MaxR, szok \in BOOLEAN : AddRecovery(i, szok)
  \/ Decode
  \/ Drop

Spec == Init /\ [][Next]_vars

(***************************************************************************)
(* Invariants                                                              *)
(***************************************************************************)
ORange == {obase + i : i \in 0..(k - 1)}
RRange == {rbase + i : i \in 0..(r - 1)}

\* the two index ranges are disjoint, inside the bitmap and inside the work positions
LayoutOK ==
  /\ ORange \cap RRange = {}
  /\ \A p \in ORange \cup RRange : p < blen /\ p < wc
\* no stray bits: every set bit belongs to exactly one range ("extra zero bits" only)
NoStray == bits \subseteq (ORange \cup RRange)
\* counters are the cardinalities of the abstract sets
CountersOK == ocnt = Cardinality(AbsO) /\ rcnt = Cardinality(AbsR) /\ Cardinality(bits) = ocnt + rcnt
\* the positions the engine sees as "received" in decode (the raw bitmap) are exactly the abstract sets
BitmapIsSets == bits = {obase + i : i \in AbsO} \cup {rbase + i : i \in AbsR}
\* restored_original(i) is Some exactly for the in-range indexes that were not given (Codec!ViewDomain)
RestoredDomain == {i \in 0..(k - 1) : (obase + i) \notin bits}
ViewOK == RestoredDomain = (0..(k - 1)) \ AbsO

DInv == LayoutOK /\ NoStray /\ CountersOK /\ BitmapIsSets /\ ViewOK

(***************************************************************************)
(* Step properties: the decisions equal Codec.tla's (CodecRules) decisions *)
(* on the abstract sets, and what must not change does not.                *)
(***************************************************************************)
StepOK ==
  [][ /\ (ret' = "duplicate") => (AbsO' = AbsO /\ AbsR' = AbsR)
      /\ (ret' \in {"duplicate", "invalid_index", "different_size", "not_enough"}) => UNCHANGED <<k, r, rate, obase, rbase, wc, bits, blen, ocnt, rcnt, live>>
      \* a fresh round after reset or drop: nothing received
      /\ ((\E c \in Cfgs : Reset(c)) \/ Drop) => (AbsO' = {} /\ AbsR' = {} /\ bits' = {})
      \* decode succeeds iff enough shards, by cardinality of the sets
      /\ (Decode /\ ret' = "not_enough") <=> (Decode /\ Cardinality(AbsO) + Cardinality(AbsR) < k)
      /\ (Decode /\ ret' = "ok_nothing") <=> (Decode /\ AbsO = 0..(k - 1))
      \* the bitmap never shrinks (C17: no reallocation on non-growing resets)
      /\ blen' >= blen
    ]_vars
=============================================================================
