SPECIFICATION Spec
CONSTANT Pref <- PrefArm
INVARIANTS TypeOK OnlyReported AlwaysBest
CHECK_DEADLOCK FALSE
