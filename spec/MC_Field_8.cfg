SPECIFICATION Spec
CONSTANTS Bits = 8
          Poly = 285
          Basis <- BasisFor
INVARIANT FieldInv
CHECK_DEADLOCK FALSE
