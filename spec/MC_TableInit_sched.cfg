SPECIFICATION Spec
CONSTANTS Tables <- ObsTables
          Deps <- ObsDeps
          Threads <- ThreeThreads
          Programs <- ObsPrograms
INVARIANTS NeverStuck AtMostOnce UseAfterDone EmitHold
