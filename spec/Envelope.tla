------------------------------- MODULE Envelope -------------------------------
(***************************************************************************)
(* Which (original_count, recovery_count) pairs are supported, which rate  *)
(* the default codec uses, and how much working space a configuration      *)
(* needs.  Order = 2^Bits (65536 for the real code).                       *)
(***************************************************************************)
EXTENDS Pow, Naturals, FiniteSets

EOrder == 2^Bits

(* The README table read literally: both counts at least 1 and for some n  *)
(* one count is at most 2^n while the other is at most Order - 2^n.        *)
ReadmeTable(k, r) ==
  /\ k >= 1 /\ r >= 1
  /\ \E n \in 0..(Bits-1) : \/ (k <= 2^n /\ r <= EOrder - 2^n)
                            \/ (r <= 2^n /\ k <= EOrder - 2^n)

(* The dedicated rates: the power-of-two-bounded side is the recovery      *)
(* count (high rate) respectively the original count (low rate).           *)
HighTable(k, r) == k >= 1 /\ r >= 1 /\ \E n \in 0..(Bits-1) : r <= 2^n /\ k <= EOrder - 2^n
LowTable(k, r)  == k >= 1 /\ r >= 1 /\ \E n \in 0..(Bits-1) : k <= 2^n /\ r <= EOrder - 2^n

(* The formulation the code uses (documentation of Rate::supports).        *)
InRange(k, r)      == k >= 1 /\ r >= 1 /\ k < EOrder /\ r < EOrder
HighSupports(k, r) == InRange(k, r) /\ NPot(r) + k <= EOrder
LowSupports(k, r)  == InRange(k, r) /\ NPot(k) + r <= EOrder
DefaultSupports(k, r) == HighSupports(k, r) \/ LowSupports(k, r)
Supports(kind, k, r) == CASE kind = "high" -> HighSupports(k, r)
                          [] kind = "low"  -> LowSupports(k, r)
                          [] OTHER         -> DefaultSupports(k, r)

(* Rate selection rule of the default codec.                               *)
UseHigh(k, r) == LET a == NPot(k) b == NPot(r) IN
                 IF a > b THEN TRUE ELSE IF a < b THEN FALSE ELSE k <= r
RateOf(kind, k, r) == CASE kind = "high" -> "high" [] kind = "low" -> "low"
                        [] OTHER -> IF UseHigh(k, r) THEN "high" ELSE "low"

(* Largest supported recovery_count for a given original_count (0 = none): *)
(* the union-of-rectangles reading of the table, row by row.               *)
EMax(S) == CHOOSE x \in S : \A y \in S : y <= x
RowMaxHigh(k) == IF k < 1 THEN 0 ELSE EMax({0} \cup {2^n : n \in {n \in 0..(Bits-1) : k <= EOrder - 2^n}})
RowMaxLow(k)  == IF k < 1 THEN 0 ELSE EMax({0} \cup {EOrder - 2^n : n \in {n \in 0..(Bits-1) : k <= 2^n}})
RowMax(kind, k) == CASE kind = "high" -> RowMaxHigh(k)
                     [] kind = "low"  -> RowMaxLow(k)
                     [] OTHER -> IF RowMaxHigh(k) > RowMaxLow(k) THEN RowMaxHigh(k) ELSE RowMaxLow(k)

(* Working space: number of work shards and placement.                     *)
NextMult(n, m) == ((n + m - 1) \div m) * m
WorkCountEnc(rate, k, r) == IF rate = "high" THEN NextMult(k, NPot(r)) ELSE NextMult(r, NPot(k))
WorkCountDec(rate, k, r) == IF rate = "high" THEN NPot(NPot(r) + k) ELSE NPot(NPot(k) + r)
OriginalBase(rate, k, r) == IF rate = "high" THEN NPot(r) ELSE 0
RecoveryBase(rate, k, r) == IF rate = "high" THEN 0 ELSE NPot(k)
BitmapNeed(rate, k, r)   == IF rate = "high" THEN NPot(r) + k ELSE NPot(k) + r

(***************************************************************************)
(* Rows as run-lengths.  For a fixed original_count k the value of a       *)
(* predicate over recovery_count r = 0 .. Order+1 only changes at a few    *)
(* breakpoints; ValueAt gives 0 = unsupported, 1 = supported (for the      *)
(* predicate "rule": 1 = high rate, 2 = low rate).  ThmBreaks (checked on  *)
(* the whole square for Bits <= 8) says the value is constant between      *)
(* consecutive breakpoints, which is what lets a 16-bit row be validated   *)
(* from its run-lengths alone.                                             *)
(***************************************************************************)
ValueAt(pred, k, r) ==
  IF pred = "rule" THEN (IF ~DefaultSupports(k, r) THEN 0 ELSE IF UseHigh(k, r) THEN 1 ELSE 2)
  ELSE IF Supports(pred, k, r) THEN 1 ELSE 0
Breaks(pred, k) ==
  {0, 1, EOrder + 2}
  \cup {RowMax(IF pred = "rule" THEN "default" ELSE pred, k) + 1}
  \cup (IF pred = "rule" /\ k >= 1 /\ k <= EOrder THEN {NPot(k) \div 2 + 1, k, NPot(k) + 1} ELSE {})
\* the breakpoint at or below r
BreakBelow(pred, k, r) == EMax({b \in Breaks(pred, k) : b <= r})
\* expected run-lengths of row k over r = 0 .. Order+1: <<value, length>>, equal neighbours merged
RowRuns(pred, k) ==
  LET bs == {b \in Breaks(pred, k) : b <= EOrder + 1}
      starts == {b \in bs : b = 0 \/ ValueAt(pred, k, b) # ValueAt(pred, k, EMax({c \in bs : c < b}))}
      nxt(b) == IF \E c \in starts : c > b THEN CHOOSE c \in starts : c > b /\ \A d \in starts : d > b => c <= d
                ELSE EOrder + 2
      ord == [n \in 1..Cardinality(starts) |-> CHOOSE b \in starts : Cardinality({c \in starts : c < b}) = n - 1]
  IN [n \in 1..Cardinality(starts) |-> <<ValueAt(pred, k, ord[n]), nxt(ord[n]) - ord[n]>>]
Preds == {"high", "low", "default", "rule"}

(***************************************************************************)
(* Theorems, checked by TLC over the whole square (0..Order+1)^2 for       *)
(* Bits = 2..8 (MC_Envelope).                                              *)
(***************************************************************************)
\* (operators with a parameter: TLC evaluates every zero-arity constant definition at start-up,
\*  which at Bits = 16 would enumerate 4.3e9 pairs in every specification that extends this module)
Square(d) == 0..(EOrder + 1 + d)
Kinds3 == {"high", "low", "default"}
ThmTable(Sq) ==
  \A k, r \in Sq :
     /\ (DefaultSupports(k, r) <=> ReadmeTable(k, r))
     /\ (HighSupports(k, r) <=> HighTable(k, r))
     /\ (LowSupports(k, r) <=> LowTable(k, r))
     /\ (ReadmeTable(k, r) <=> (HighTable(k, r) \/ LowTable(k, r)))
ThmRate(Sq) ==
  \A k, r \in Sq :
     DefaultSupports(k, r) =>
        /\ (UseHigh(k, r) => HighSupports(k, r))
        /\ (~UseHigh(k, r) => LowSupports(k, r))
ThmRows(Sq) ==
  \A k \in Sq : \A kind \in Kinds3 : \A r \in Sq :
     Supports(kind, k, r) <=> (r >= 1 /\ r <= RowMax(kind, k))
ThmBreaks(Sq) ==
  \A k \in Sq : \A pred \in Preds : \A r \in Sq :
     ValueAt(pred, k, r) = ValueAt(pred, k, BreakBelow(pred, k, r))
ThmMonotone(Sq) ==
  \A k, r \in Sq : \A kind \in Kinds3 :
     Supports(kind, k, r) =>
        /\ (r > 1 => Supports(kind, k, r - 1))
        /\ (k > 1 => Supports(kind, k - 1, r))
ThmSymmetric(Sq) ==
  \A k, r \in Sq :
     /\ (DefaultSupports(k, r) <=> DefaultSupports(r, k))
     /\ (HighSupports(k, r) <=> LowSupports(r, k))
\* work counts fit the field; the largest skew index an encoder or decoder uses is inside the table
\* (table length Order - 1; ifft/fft use indexes up to pos + size + skew_delta - 2)
ThmWork(Sq) ==
  \A k, r \in Sq :
     /\ (HighSupports(k, r) =>
            /\ WorkCountDec("high", k, r) <= EOrder
            /\ WorkCountEnc("high", k, r) + NPot(r) <= EOrder
            /\ BitmapNeed("high", k, r) <= WorkCountDec("high", k, r))
     /\ (LowSupports(k, r) =>
            /\ WorkCountDec("low", k, r) <= EOrder
            /\ WorkCountEnc("low", k, r) + NPot(k) <= EOrder + NPot(k)
            /\ BitmapNeed("low", k, r) <= WorkCountDec("low", k, r))
=============================================================================
