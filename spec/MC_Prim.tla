------------------------------ MODULE MC_Prim ------------------------------
(***************************************************************************)
(* The primitive contracts on a small field: the naive layer-at-a-time     *)
(* transform equals the polynomial-evaluation contract on the outputs the  *)
(* contract determines; the two-layers-at-a-time schedule of the optimised *)
(* engines agrees with it exactly there (and may differ elsewhere - which  *)
(* fixes the comparison region of C03); ifft inverts fft; the truncated    *)
(* Walsh evaluation equals the locator definition.                         *)
(***************************************************************************)
EXTENDS Algo

BasisFor == CASE Bits = 2 -> <<1, 2>> [] Bits = 4 -> <<1, 6, 2, 10>>
              [] Bits = 8 -> <<1, 214, 152, 146, 86, 200, 88, 230>>

Sizes == {2^e : e \in 0..(Bits - 1)}
Cases == {c \in Sizes \X (1..(Order \div 2)) \X {0, 1, 2, 3} \X {0, 1} :
            /\ c[2] <= c[1]                        \* trunc <= size
            /\ c[3] * c[1] + c[1] <= Order}        \* skew_delta = c[3] * size, last index inside the table

VARIABLES c, ph
vars == <<c, ph>>
Init == c \in Cases /\ ph = 0
Next == ph = 0 /\ ph' = 1 /\ UNCHANGED c
Spec == Init /\ [][Next]_vars

Size == c[1]
Trunc == c[2]
Delta == c[3] * c[1]
Pos == c[4] * c[1]
Mem == 0..(Pos + Size)                             \* one guard position after the range
Input(salt) == [p \in Mem |-> ((5 * p + 3 * salt + 1) * (p + salt + 2)) % Order]
ZeroBeyond(w) == [p \in Mem |-> IF p >= Pos + Trunc /\ p < Pos + Size THEN 0 ELSE w[p]]
Coeffs(w) == [i \in 1..Size |-> w[Pos + i - 1]]

PrimInv ==
  ph = 1 =>
    \A salt \in {1, 2} :
      LET w == Input(salt)
          f1 == Fft(w, Pos, Size, Trunc, Delta)
          f2 == Fft2(w, Pos, Size, Trunc, Delta)
          wz == ZeroBeyond(w)
          i1 == Ifft(wz, Pos, Size, Trunc, Delta)
          i2 == Ifft2(wz, Pos, Size, Trunc, Delta) IN
      \* contract: the first trunc outputs are the polynomial's values at skew_delta + p
      /\ \A p \in 0..(Trunc - 1) : f1[Pos + p] = FFTSpec(Coeffs(w), Size, Delta, p)
      \* both schedules agree where the contract determines the result, and leave the rest of memory alone
      /\ \A p \in 0..(Trunc - 1) : f2[Pos + p] = f1[Pos + p]
      /\ \A q \in Mem : (q < Pos \/ q >= Pos + Size) => (f1[q] = w[q] /\ f2[q] = w[q] /\ i1[q] = wz[q] /\ i2[q] = wz[q])
      \* ifft with zero input beyond trunc: fully determined, exact inverse of the evaluation
      /\ \A p \in 0..(Size - 1) : i1[Pos + p] = i2[Pos + p]
      /\ \A p \in 0..(Size - 1) : FFTSpec(Coeffs(i1), Size, Delta, p) = wz[Pos + p]
      \* fft o ifft = id on full transforms
      /\ (Trunc = Size => \A p \in 0..(Size - 1) : Fft(i1, Pos, Size, Size, Delta)[Pos + p] = wz[Pos + p])

\* truncated Walsh evaluation = locator definition, for every truncated size that covers the marks
MarkSets == {m \cap Sym : m \in {{0}, {1, 2}, {0, Order - 1}, {1, 2, 3, 5}, {x \in Sym : x % 3 = 0}, Sym \ {2}}}
EvalInv ==
  ph = 1 /\ c[3] = 0 /\ c[4] = 0 =>
    \A marks \in MarkSets :
      LET top == CHOOSE t \in 1..Order : (\A x \in marks : x < t) /\ (t = 1 \/ (t - 1) \in marks) IN
      \A mt \in {t \in {top, top + 1, Order} : t >= top /\ t <= Order} :
        LET out == EvalPolyImpl([i \in Sym |-> IF i \in marks THEN 1 ELSE 0], mt) IN
        \A x \in Sym : Canon(out[x]) = Canon(EvalPolySpec(marks, x))
=============================================================================
