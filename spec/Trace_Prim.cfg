SPECIFICATION Spec
CONSTANTS Bits = 16
          Poly = 65581
          Basis <- Basis16
INVARIANT TraceInv
POSTCONDITION AllSeen
CHECK_DEADLOCK FALSE
