------------------------------ MODULE OneShot ------------------------------
(***************************************************************************)
(* The one-shot functions reed_solomon_simd::encode / decode.              *)
(*                                                                         *)
(*   encode(k, r, L)     L : sequence of shard lengths (data is irrelevant *)
(*                           to which call succeeds)                       *)
(*   decode(k, r, O, R)  O, R : sequences of <<index, length>>             *)
(*                                                                         *)
(* They are DEFINED as the streaming API applied to the arguments: create  *)
(* a ReedSolomonEncoder/Decoder for the inferred shard size (the code takes *)
(* the first recovery shard, else the first original; the CONTRACT does    *)
(* not depend on which shard it is inferred from), add the originals in    *)
(* order, then the recovery shards, then encode/decode.  StreamEncode /     *)
(* StreamDecode below are exactly that fold over the rule sets of          *)
(* CodecRules.tla.  Because the property leaves open which truthful error  *)
(* is reported, the contract is the set of ALL preconditions the input     *)
(* violates (EncodeContract / DecodeContract); MC_OneShot checks that the  *)
(* streaming fold always lands inside it, and Ok iff it is empty.          *)
(***************************************************************************)
EXTENDS CodecRules, SequencesExt

IdxOf(s) == [t \in DOMAIN s |-> s[t][1]]
\* "a shard of another size than the configured one": any ordered pair of different given lengths
DiffErrs(S) == {[err |-> "DifferentShardSize", shard_bytes |-> p[1], got |-> p[2]] : p \in {q \in S \X S : q[1] # q[2]}}
LenOfItem(x) == x[2]

(***************************************************************************)
(* encode                                                                  *)
(***************************************************************************)
EncodeContract(k, r, L) ==
     (IF ~SupportsE("default", k, r)
      THEN {[err |-> "UnsupportedShardCount", original_count |-> k, recovery_count |-> r]} ELSE {})
\cup (IF Len(L) < k /\ ~Huge(k) THEN {[err |-> "TooFewOriginalShards", original_count |-> k, original_received_count |-> n] : n \in {Len(L)}} ELSE {})
\cup (IF Huge(k) THEN {[err |-> "TooFewOriginalShards", original_count |-> k, original_received_count |-> Len(L)]} ELSE {})
\cup (IF ~Huge(k) /\ Len(L) > k THEN {[err |-> "TooManyOriginalShards", original_count |-> k]} ELSE {})
\* sizes: WHICH shard the size is inferred from is not part of the property - any given length that is invalid, and any two
\* given lengths that differ, are truthfully reported
\cup {[err |-> "InvalidShardSize", shard_bytes |-> L[t]] : t \in {t \in DOMAIN L : BadSize(L[t])}}
\cup DiffErrs({L[t] : t \in DOMAIN L})

\* the streaming run: first failing step's violation set, or {} when every step succeeds
StreamEncode(k, r, L) ==
  IF Len(L) = 0 THEN (IF ~SupportsE("default", k, r)
                      THEN ConfigViolations("rs", k, r, 2)
                      ELSE EncodeViolations(k, 0))
  ELSE LET cv == ConfigViolations("rs", k, r, L[1]) IN
       IF cv # {} THEN cv
       ELSE LET st == FoldLeft(LAMBDA acc, len:
                         IF acc.err # {} THEN acc
                         ELSE LET v == EncAddViolations(k, L[1], acc.n, len) IN
                              IF v # {} THEN [n |-> acc.n, err |-> v] ELSE [n |-> acc.n + 1, err |-> {}],
                       [n |-> 0, err |-> {}], L) IN
            IF st.err # {} THEN st.err ELSE EncodeViolations(k, st.n)

(***************************************************************************)
(* decode                                                                  *)
(***************************************************************************)
InferredSize(O, R) == IF Len(R) > 0 THEN R[1][2] ELSE IF Len(O) > 0 THEN O[1][2] ELSE -1   \* -1: nothing to infer from
HasSize(O, R) == Len(R) > 0 \/ Len(O) > 0

AllLens(O, R) == {O[t][2] : t \in DOMAIN O} \cup {R[t][2] : t \in DOMAIN R}
DupIdx(s) == {s[t][1] : t \in {t \in DOMAIN s : \E u \in DOMAIN s : u < t /\ s[u][1] = s[t][1]}}
ValidDistinct(s, cnt) == {s[t][1] : t \in {t \in DOMAIN s : ~Ge(s[t][1], cnt)}}

DecodeContract(k, r, O, R) ==
  LET sb == InferredSize(O, R)
      dvO == Cardinality(ValidDistinct(O, k))
      dvR == Cardinality(ValidDistinct(R, r)) IN
     (IF ~SupportsE("default", k, r)
      THEN {[err |-> "UnsupportedShardCount", original_count |-> k, recovery_count |-> r]} ELSE {})
\cup {[err |-> "InvalidShardSize", shard_bytes |-> l] : l \in {l \in AllLens(O, R) : BadSize(l)}}
\cup {[err |-> "InvalidOriginalShardIndex", original_count |-> k, index |-> O[t][1]] : t \in {t \in DOMAIN O : Ge(O[t][1], k)}}
\cup {[err |-> "InvalidRecoveryShardIndex", recovery_count |-> r, index |-> R[t][1]] : t \in {t \in DOMAIN R : Ge(R[t][1], r)}}
\cup {[err |-> "DuplicateOriginalShardIndex", index |-> i] : i \in DupIdx(O)}
\cup {[err |-> "DuplicateRecoveryShardIndex", index |-> i] : i \in DupIdx(R)}
\cup DiffErrs(AllLens(O, R))
\* "not enough shards: a original + b recovery < original_count" must be what the text asserts and true of the input
\cup (IF Huge(k) \/ dvO + dvR >= k THEN {}
      ELSE {[err |-> "NotEnoughShards", original_count |-> k, original_received_count |-> a, recovery_received_count |-> b] :
              a \in dvO..Len(O), b \in {b \in dvR..Len(R) : TRUE}} \cap
           {[err |-> "NotEnoughShards", original_count |-> k, original_received_count |-> a, recovery_received_count |-> b] :
              a \in 0..Len(O), b \in 0..Len(R)})
NotEnoughTruthful(e, k) == e.err = "NotEnoughShards" => e.original_received_count + e.recovery_received_count < k

DecodeAllowed(k, r, O, R) == {e \in DecodeContract(k, r, O, R) : NotEnoughTruthful(e, k)}

DecStep(which, cnt, sb, acc, x) ==
  IF acc.err # {} THEN acc
  ELSE LET got == IF which = "original" THEN acc.gO ELSE acc.gR
           v == DecAddViolations(which, cnt, sb, got, x[1], x[2]) IN
       IF v # {} THEN [gO |-> acc.gO, gR |-> acc.gR, err |-> v]
       ELSE IF which = "original" THEN [gO |-> acc.gO \cup {x[1]}, gR |-> acc.gR, err |-> {}]
                                  ELSE [gO |-> acc.gO, gR |-> acc.gR \cup {x[1]}, err |-> {}]

StreamDecode(k, r, O, R) ==
  IF ~SupportsE("default", k, r) THEN ConfigViolations("rs", k, r, 2)
  ELSE IF ~HasSize(O, R) THEN DecodeViolations(k, 0, 0)
  ELSE
  LET sb == InferredSize(O, R)
      cv == ConfigViolations("rs", k, r, sb) IN
  IF cv # {} THEN cv
  ELSE LET s1 == FoldLeft(LAMBDA acc, x: DecStep("original", k, sb, acc, x), [gO |-> {}, gR |-> {}, err |-> {}], O)
           s2 == FoldLeft(LAMBDA acc, x: DecStep("recovery", r, sb, acc, x), s1, R) IN
       IF s2.err # {} THEN s2.err ELSE DecodeViolations(k, Cardinality(s2.gO), Cardinality(s2.gR))

\* what a successful decode returns: exactly the in-range originals that were not given
RestoredDomain(k, O) == (0..(k-1)) \ {O[t][1] : t \in DOMAIN O}
=============================================================================
