SPECIFICATION Spec
CONSTANTS Bits = 16
          Role = "dec"
          Kind0 = "rs"
          Rehousing = FALSE
          Scale = 1
          Big = FALSE
VIEW View
ACTION_CONSTRAINT Emit
INVARIANTS TypeOK RateConsistent LiveImpliesEnough
PROPERTY NoopProp
CHECK_DEADLOCK FALSE
