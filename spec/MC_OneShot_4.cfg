SPECIFICATION Spec
CONSTANTS Bits = 16
          MaxShards = 4
INVARIANT FoldInsideContract
ACTION_CONSTRAINT Emit
CHECK_DEADLOCK FALSE
