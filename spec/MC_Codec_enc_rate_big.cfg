SPECIFICATION Spec
CONSTANTS Bits = 16
          Role = "enc"
          Kind0 = "default"
          Rehousing = TRUE
          Scale = 1
          Big = TRUE
VIEW View
ACTION_CONSTRAINT Emit
INVARIANTS TypeOK RateConsistent LiveImpliesEnough
PROPERTY NoopProp
CHECK_DEADLOCK FALSE
