SPECIFICATION Spec
CONSTANTS Bits = 5
MaxK = 5
MaxR = 4
INVARIANT DInv
PROPERTY StepOK
CHECK_DEADLOCK FALSE
