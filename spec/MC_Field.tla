------------------------------ MODULE MC_Field ------------------------------
(***************************************************************************)
(* Bounded check of the field / LCH / code definitions on a small field:   *)
(* field axioms by comparison with an independent shift-and-xor product,   *)
(* the table contracts, and every "linear shortcut" the 16-bit trace       *)
(* specifications rely on.  One check per state so that the work runs on   *)
(* TLC's worker threads.                                                   *)
(***************************************************************************)
EXTENDS LCH, Code, GFCheck

BasisFor == CASE Bits = 2 -> <<1, 2>>
              [] Bits = 3 -> <<1, 2, 4>>
              [] Bits = 4 -> <<1, 6, 2, 10>>
              [] Bits = 5 -> <<1, 2, 4, 8, 16>>
              [] Bits = 6 -> <<1, 2, 4, 8, 16, 32>>
              [] Bits = 8 -> <<1, 214, 152, 146, 86, 200, 88, 230>>
IsCantor == Bits \in {2, 4, 8}

VARIABLE c
Checks == 1..12
Init == c = 0
Next == c < 12 /\ c' = c + 1
Spec == Init /\ [][Next]_c

MarkSets == IF Bits <= 3 THEN SUBSET Sym
            ELSE {{}, {0}, {1}, {Order-1}, {0, 1}, {1, 2, 3}, {0, Order-1}, Sym, Sym \ {0}, Sym \ {3},
                  {x \in Sym : x % 2 = 0}, {x \in Sym : x < Order \div 2}, {x \in Sym : x >= 3 /\ x % 3 = 1}}
KS == IF Bits <= 4 THEN 1..(Order-1) ELSE {1, 2, 3, 5, 8, 9, Order \div 4, Order \div 4 + 1, Order \div 2 - 1, Order \div 2, Order - 9, Order - 2, Order - 1}
EOf(marks) == [i \in Sym |-> IF i \in marks THEN 1 ELSE 0]

Check(n) ==
  CASE n = 1  -> PrimitiveOK /\ BasisOK /\ ToPolyOK /\ (IsCantor => CantorOK)
    [] n = 2  -> \A a, b \in Sym : Mul(a, b) = PMul(a, b)
    [] n = 3  -> /\ \A a \in Sym \ {0} : Mul(a, GInv(a)) = 1 /\ Div(a, a) = 1
                 /\ \A a \in Sym, b \in Sym \ {0} : Mul(Div(a, b), b) = a
    [] n = 4  -> /\ \A a \in Sym, lm \in Sym : MulLog(a, lm) = (IF lm = Modulus THEN a ELSE Mul(a, Exp[lm]))
                 /\ \A e \in 0..(Modulus-1) : Log[Exp[e]] = e
                 /\ Exp[Modulus] = Exp[0] /\ Log[0] = Modulus
                 /\ \A a \in Sym \ {0} : Exp[Log[a]] = a
    [] n = 5  -> \A j \in 0..(Bits-1), x \in Sym : WhatLin(j, x) = What(j, x)
    [] n = 6  -> \A i \in 0..(Modulus-1) : SkewLin(i) = SkewDef(i)
    [] n = 7  -> \A m \in Pow2Set \ {Order}, x \in Sym : SMLin(m, x) = SM(m, x)
    [] n = 8  -> \* What(j,.) vanishes exactly on V_j and is 1 at 2^j; X_i has the right "degree"
                 \A j \in 0..(Bits-1) : /\ What(j, 2^j) = 1
                                         /\ \A x \in Sym : (What(j, x) = 0) <=> (x < 2^j)
    [] n = 9  -> \A marks \in MarkSets : LET out == EvalPolyProc(EOf(marks)) IN
                    \A x \in Sym : Canon(out[x]) = Canon(EvalPolySpec(marks, x))
    [] n = 10 -> \A w \in {0, 1, 2, Order - 1, Order \div 2} : Canon(LogWalshDef[w]) = Canon(WalshAt(Log0, w))
    [] n = 11 -> \* MDS: every square submatrix choice - any k of the k+r codeword symbols determine the data.
                 \* Checked here in its simplest consequence: no G entry is zero (every recovery symbol
                 \* depends on every original), for every configuration of the scaled envelope.
                 \A k \in KS, r \in KS :
                    /\ (NPot(r) + k <= Order => \A j \in 0..(r-1), i \in 0..(k-1) : GHigh(k, r, j, i) # 0)
                    /\ (NPot(k) + r <= Order => \A j \in 0..(r-1), i \in 0..(k-1) : GLow(k, r, j, i) # 0)
    [] n = 12 -> \* hoisted form = plain form
                 \A k \in {x \in KS : x <= Order \div 2}, r \in {x \in KS : x <= Order \div 2} : \A rate \in {"high", "low"} :
                    LET pre == Pre(rate, k, r) IN
                    \A j \in 0..(r-1), i \in 0..(k-1) : GPre(rate, pre, j, i) = G(rate, k, r, j, i)
    [] OTHER  -> TRUE
FieldInv == c \in Checks => Check(c)
=============================================================================
