--------------------------- MODULE Trace_Dispatch ---------------------------
(***************************************************************************)
(* Trace validation of the default engine's dispatch under every feature   *)
(* mask (hook H3).  Events:                                                *)
(*   mask       starts a run: what the (masked) CPU reports                *)
(*   construct  DefaultEngine::new(); whatever ran is reported and the best  *)
(*   call       one operation (a primitive, eval_poly, or a whole encode / *)
(*              decode / one-shot round): which #[target_feature] entry    *)
(*              points ran how often, and a digest of the result           *)
(* The digests of the same operation must be identical under every mask.   *)
(***************************************************************************)
EXTENDS Dispatch, Json, IOUtils

PrefX86 == <<"avx2", "ssse3">>
Rec == ndJsonDeserialize(IOEnv.TRACE)
N   == Len(Rec)

VARIABLES l, memo     \* memo: operation id -> digest seen under the first mask
tvars == <<vars, l, memo>>

SeqSet(s) == {s[t] : t \in DOMAIN s}
\* entry points that ran: set of <<entry, isa>> from the counters record  isa -> entry -> count
RanOf(c) == {<<en, isa>> \in {"fft", "ifft", "mul", "eval_poly"} \X DOMAIN c : c[isa][en] > 0}

TraceInit == l = 1 /\ memo = <<>> /\ reported = {} /\ engine = "none" /\ ran = {}

Step(e) ==
  CASE e.ev = "mask" ->
         \* a new run on a CPU reporting exactly these features
         /\ reported' = SeqSet(e.reported) /\ engine' = "none" /\ ran' = {} /\ UNCHANGED memo
         /\ SeqSet(e.reported) \subseteq Isas
    [] e.ev = "construct" ->
         \* (a constructor may already run code - a self-test, a warm-up: then the same rule as for a call applies)
         /\ Construct /\ (\A x \in RanOf(e.isas) : x[2] = Best(reported) /\ x[2] \in reported) /\ UNCHANGED memo
    [] e.ev = "call" ->
         \* the operation decomposes into primitives of the constructed engine and eval_poly calls:
         \* whatever ran must be the best reported instruction set, for every entry point
         /\ engine # "none"
         /\ LET r == RanOf(e.isas) IN
            /\ \A x \in r : x[2] = Best(reported) /\ x[2] \in reported
            /\ (Best(reported) = "portable" => r = {})
            \* the entry points the operation needs really went through the SIMD code when one is reported
            /\ (Best(reported) # "portable" => \A en \in SeqSet(e.needs) : <<en, Best(reported)>> \in r)
            /\ ran' = ran \cup r
         /\ UNCHANGED <<reported, engine>>
         /\ ~("fail" \in DOMAIN e)
         /\ IF e.op \in DOMAIN memo THEN memo[e.op] = e.dig /\ UNCHANGED memo
                                    ELSE memo' = [o \in DOMAIN memo \cup {e.op} |-> IF o = e.op THEN e.dig ELSE memo[o]]
    [] OTHER -> FALSE

TraceNext == l <= N /\ l' = l + 1 /\ \E e \in {Rec[l]} : Step(e)
TraceSpec == TraceInit /\ [][TraceNext]_tvars
TraceInv == OnlyReported /\ AlwaysBest
TraceAccepted ==
  LET d == TLCGet("stats").diameter - 1 IN
  IF d = N THEN TRUE ELSE PrintT(<<"TRACE-MATCHED", d, "of", N>>) /\ PrintT(<<"TRACE-REJECTED at line", d + 1>>) /\ FALSE
=============================================================================
