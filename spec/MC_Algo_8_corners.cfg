SPECIFICATION Spec
CONSTANTS Bits = 8
          Poly = 285
          Basis <- BasisFor
          MaxN = 0
          MaxCfg = 0
          Corners = TRUE
INVARIANTS EncInv DecInv
CHECK_DEADLOCK FALSE
