SPECIFICATION Spec
CONSTANTS Bits = 2
INVARIANT EnvInv
CHECK_DEADLOCK FALSE
