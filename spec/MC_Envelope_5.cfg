SPECIFICATION Spec
CONSTANTS Bits = 5
INVARIANT EnvInv
CHECK_DEADLOCK FALSE
