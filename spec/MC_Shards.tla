------------------------------ MODULE MC_Shards ------------------------------
(***************************************************************************)
(* Bounded model of Shards.tla: every buffer shape of the palette, every   *)
(* legal call with arguments up to the shard count, histories up to Depth  *)
(* calls.  TLC checks the frame/nesting/closure properties on every        *)
(* reachable state and prints each complete history as a script; the       *)
(* harness replays the scripts on the real ShardsRefMut and records what   *)
(* the buffer held after every call, and Trace_Shards checks that record   *)
(* against the same actions (spec -> implementation -> spec).              *)
(***************************************************************************)
EXTENDS Shards, Json, TLC

CONSTANTS Palette,  \* which set of buffer shapes <<total, count, len>>
          Depth

Shapes == CASE Palette = 1 -> {<<4, 2, 2>>, <<5, 4, 1>>, <<3, 0, 2>>, <<2, 2, 0>>}
            [] Palette = 2 -> {<<4, 2, 2>>, <<5, 4, 1>>, <<9, 4, 2>>, <<3, 0, 2>>, <<2, 2, 0>>}
            [] Palette = 3 -> {<<8, 8, 1>>, <<12, 4, 3>>, <<6, 5, 1>>}

VARIABLES hist      \* the calls so far (a history variable: one behaviour per script)

Init == \E s \in Shapes : /\ InitNew(s[1], s[2], s[3])
                          /\ hist = <<[op |-> "new", total |-> s[1], count |-> s[2], len |-> s[3]]>>

Args == 0..(Top.count + 1)
Step(rec) == hist' = Append(hist, rec)

Next ==
  /\ Len(hist) <= Depth
  /\ \/ \E sk \in {"incl", "excl", "unb"}, ek \in {"incl", "excl", "unb"}, a \in Args, b \in Args :
          /\ (sk = "unb" => a = 0) /\ (ek = "unb" => b = 0)
          /\ Zero(sk, a, ek, b) /\ Step([op |-> "zero", sk |-> sk, a |-> a, ek |-> ek, b |-> b])
     \/ \E x \in Args, y \in Args, c \in Args : XorWithin(x, y, c) /\ Step([op |-> "xor_within", x |-> x, y |-> y, c |-> c])
     \/ \E pos \in Args, dist \in Args, dir \in {"ab", "ba"} :
          Dist2(pos, dist, dir) /\ Step([op |-> "dist2", pos |-> pos, dist |-> dist, dir |-> dir])
     \/ \E pos \in Args, dist \in Args : Dist4(pos, dist) /\ Step([op |-> "dist4", pos |-> pos, dist |-> dist])
     \/ \E i \in Args : Index(i) /\ Step([op |-> "index", i |-> i])
     \/ \E i \in Args : IndexZero(i) /\ Step([op |-> "index_zero", i |-> i])
     \/ Query /\ Step([op |-> "query"])
     \/ \E mid \in Args, side \in {"first", "second"} : Split(mid, side) /\ Step([op |-> "split", mid |-> mid, side |-> side])
     \/ Pop /\ Step([op |-> "pop"])

Spec == Init /\ [][Next]_<<svars, hist>>

\* one script per complete history
EmitScript == (Len(hist) = Depth + 1) => PrintT(<<"SCRIPT", ToJson(hist)>>)

FrameProp == [][FrameStep /\ AtomsStayInTop]_svars
=============================================================================
