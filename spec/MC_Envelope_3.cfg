SPECIFICATION Spec
CONSTANTS Bits = 3
INVARIANT EnvInv
CHECK_DEADLOCK FALSE
