-------------------------------- MODULE Algo --------------------------------
(***************************************************************************)
(* Implementation-shaped procedures: a step-for-step transcription of      *)
(*   HighRateEncoder::encode, LowRateEncoder::encode,                      *)
(*   HighRateDecoder::decode, LowRateDecoder::decode,                      *)
(*   Naive::fft / ifft (one layer at a time) and the two-layers-at-a-time  *)
(*   schedule of the optimised engines, formal_derivative, fwht, eval_poly *)
(* over an abstract work memory  position -> symbol  (one symbol slot of   *)
(* every work shard; slots never interact, C04).  Positions the procedure  *)
(* has not written hold a POISON value chosen by the model: the stale      *)
(* content of a reused working space (C05).                                *)
(*                                                                         *)
(* MC_Algo checks on the small fields, for every configuration of the      *)
(* scaled-down envelope:                                                   *)
(*   - the encoders compute Code!Encode (the closed form) for every poison *)
(*   - the decoders return exactly the missing originals for every         *)
(*     sufficient subset                                                   *)
(*   - every skew-table index and every work position used is in range    *)
(*   - the two FFT schedules agree on the outputs the contract determines  *)
(***************************************************************************)
EXTENDS LCH, Code

\* the skew table the engines index (entry Modulus = "factor zero")
Skew == [i \in 0..(Modulus - 1) |-> SkewDef(i)]
SkewAt(i) == IF i \in DOMAIN Skew THEN Skew[i] ELSE Assert(FALSE, <<"skew index out of range", i>>)

Layers(size) == {j \in 0..(Bits-1) : 2^j < size}
LayerSeqUp(size)   == SetToSortSeq(Layers(size), <)
LayerSeqDown(size) == SetToSortSeq(Layers(size), >)
InWork(w, p) == IF p \in DOMAIN w THEN TRUE ELSE Assert(FALSE, <<"work position out of range", p>>)

(***************************************************************************)
(* Naive engine: one layer with dist = 2^j over [pos, pos+size); groups    *)
(* starting at r < trunc are processed.                                    *)
(***************************************************************************)
IfftLayer(w, pos, size, trunc, delta, j) ==
  LET dist == 2^j
      upd(i) ==
         LET r == (i \div (2*dist)) * (2*dist)  off == i - r IN
         IF r >= trunc THEN w[pos+i]
         ELSE LET lm == SkewAt(r + dist + delta - 1)
                  a == w[pos + r + (off % dist)]
                  b == w[pos + r + (off % dist) + dist]
                  b2 == b ^^ a
                  a2 == a ^^ SkewMul(b2, lm)
              IN IF off < dist THEN a2 ELSE b2
  IN [p \in DOMAIN w |-> IF p >= pos /\ p < pos + size THEN upd(p - pos) ELSE w[p]]
FftLayer(w, pos, size, trunc, delta, j) ==
  LET dist == 2^j
      upd(i) ==
         LET r == (i \div (2*dist)) * (2*dist)  off == i - r IN
         IF r >= trunc THEN w[pos+i]
         ELSE LET lm == SkewAt(r + dist + delta - 1)
                  a == w[pos + r + (off % dist)]
                  b == w[pos + r + (off % dist) + dist]
                  a2 == a ^^ SkewMul(b, lm)
                  b2 == b ^^ a2
              IN IF off < dist THEN a2 ELSE b2
  IN [p \in DOMAIN w |-> IF p >= pos /\ p < pos + size THEN upd(p - pos) ELSE w[p]]
Ifft(w, pos, size, trunc, delta) ==
  IF InWork(w, pos + size - 1)
  THEN FoldLeft(LAMBDA acc, j: IfftLayer(acc, pos, size, trunc, delta, j), w, LayerSeqUp(size)) ELSE w
Fft(w, pos, size, trunc, delta) ==
  IF InWork(w, pos + size - 1)
  THEN FoldLeft(LAMBDA acc, j: FftLayer(acc, pos, size, trunc, delta, j), w, LayerSeqDown(size)) ELSE w

(***************************************************************************)
(* Optimised engines (NoSimd, Avx2, Ssse3, Neon): two layers at a time,    *)
(* groups of 4*dist starting at r < trunc, then a final odd layer.  The    *)
(* processed region is rounded up to a multiple of 4*dist, so outputs at   *)
(* and beyond trunc may differ from the naive schedule - which is why the  *)
(* contract leaves them open.                                              *)
(***************************************************************************)
\* a layer restricted to groups of width `group` starting below trunc
FftLayerG(w, pos, size, trunc, delta, j, group) ==
  LET dist == 2^j
      upd(i) ==
         LET r == (i \div (2*dist)) * (2*dist)  off == i - r  g == (i \div group) * group IN
         IF g >= trunc THEN w[pos+i]
         ELSE LET lm == SkewAt(r + dist + delta - 1)
                  a == w[pos + r + (off % dist)]
                  b == w[pos + r + (off % dist) + dist]
                  a2 == a ^^ SkewMul(b, lm)
                  b2 == b ^^ a2
              IN IF off < dist THEN a2 ELSE b2
  IN [p \in DOMAIN w |-> IF p >= pos /\ p < pos + size THEN upd(p - pos) ELSE w[p]]
IfftLayerG(w, pos, size, trunc, delta, j, group) ==
  LET dist == 2^j
      upd(i) ==
         LET r == (i \div (2*dist)) * (2*dist)  off == i - r  g == (i \div group) * group IN
         IF g >= trunc THEN w[pos+i]
         ELSE LET lm == SkewAt(r + dist + delta - 1)
                  a == w[pos + r + (off % dist)]
                  b == w[pos + r + (off % dist) + dist]
                  b2 == b ^^ a
                  a2 == a ^^ SkewMul(b2, lm)
              IN IF off < dist THEN a2 ELSE b2
  IN [p \in DOMAIN w |-> IF p >= pos /\ p < pos + size THEN upd(p - pos) ELSE w[p]]
\* fft_private: dist = size/4, size/16, ...: layers (2*dist, dist) in groups of 4*dist; final layer dist = 1 in groups of 2
Log2(n) == CHOOSE e \in 0..Bits : 2^e = n
Fft2(w, pos, size, trunc, delta) ==
  LET n == Log2(size)
      pairs == [t \in 1..(n \div 2) |-> n - 2*t]           \* exponent of dist for each double layer
      w1 == FoldLeft(LAMBDA acc, e: FftLayerG(FftLayerG(acc, pos, size, trunc, delta, e + 1, 2^(e+2)),
                                              pos, size, trunc, delta, e, 2^(e+2)),
                     w, pairs)
  IN IF n % 2 = 1 THEN FftLayerG(w1, pos, size, trunc, delta, 0, 2) ELSE w1
\* ifft_private: dist = 1, 4, 16, ...: layers (dist, 2*dist) in groups of 4*dist; final odd layer over the whole range
Ifft2(w, pos, size, trunc, delta) ==
  LET n == Log2(size)
      pairs == [t \in 1..(n \div 2) |-> 2*(t-1)]
      w1 == FoldLeft(LAMBDA acc, e: IfftLayerG(IfftLayerG(acc, pos, size, trunc, delta, e, 2^(e+2)),
                                               pos, size, trunc, delta, e + 1, 2^(e+2)),
                     w, pairs)
  IN IF n % 2 = 1 THEN IfftLayerG(w1, pos, size, size, delta, n - 1, size) ELSE w1

(***************************************************************************)
(* Work-memory helpers                                                     *)
(***************************************************************************)
Zero(w, lo, hi) == [p \in DOMAIN w |-> IF p >= lo /\ p < hi THEN 0 ELSE w[p]]
XorWithin(w, xpos, ypos, cnt) ==
  [p \in DOMAIN w |-> IF p >= xpos /\ p < xpos + cnt THEN w[p] ^^ w[ypos + (p - xpos)] ELSE w[p]]
CopyWithin(w, src, dst, cnt) ==
  [p \in DOMAIN w |-> IF p >= dst /\ p < dst + cnt THEN w[src + (p - dst)] ELSE w[p]]
NextMultiple(n, m) == ((n + m - 1) \div m) * m
Min2(a, b) == IF a < b THEN a ELSE b

(***************************************************************************)
(* Encoders.  d : sequence of k symbols.  Unwritten work positions = poison*)
(***************************************************************************)
HighEncode(k, r, d, poison) ==
  LET m  == NPot(r)
      wc == NextMultiple(k, m)
      w0 == [p \in 0..(wc-1) |-> IF p < k THEN d[p+1] ELSE poison]
      first == Min2(k, m)
      w1 == Ifft(Zero(w0, first, m), 0, m, first, m)                       \* first chunk: skew_delta = pos + size = m
      fullChunks == {c \in 1..(wc \div m) : c*m + m <= k}
      w2 == FoldLeft(LAMBDA acc, c: XorWithin(Ifft(acc, c*m, m, m, c*m + m), 0, c*m, m), w1, SetToSortSeq(fullChunks, <))
      cs == m * (1 + Cardinality(fullChunks))
      last == k % m
      w3 == IF k > m /\ last > 0 THEN XorWithin(Ifft(Zero(w2, cs + last, wc), cs, m, last, cs + m), 0, cs, m) ELSE w2
      w4 == Fft(w3, 0, m, r, 0)
  IN [j \in 0..(r-1) |-> w4[j]]

LowEncode(k, r, d, poison) ==
  LET m  == NPot(k)
      wc == NextMultiple(r, m)
      w0 == [p \in 0..(wc-1) |-> IF p < k THEN d[p+1] ELSE poison]
      w1 == Ifft(Zero(w0, k, m), 0, m, k, 0)
      copies == {c \in 1..(wc \div m) : c*m < r}
      w2 == FoldLeft(LAMBDA acc, c: CopyWithin(acc, 0, c*m, m), w1, SetToSortSeq(copies, <))
      full == {c \in 0..(wc \div m) : c*m + m <= r}
      w3 == FoldLeft(LAMBDA acc, c: Fft(acc, c*m, m, m, c*m + m), w2, SetToSortSeq(full, <))
      cs == m * Cardinality(full)
      last == r % m
      w4 == IF last > 0 THEN Fft(w3, cs, m, last, cs + m) ELSE w3
  IN [j \in 0..(r-1) |-> w4[j]]

AlgoEncode(rate, k, r, d, poison) == IF rate = "high" THEN HighEncode(k, r, d, poison) ELSE LowEncode(k, r, d, poison)

(***************************************************************************)
(* Erasure locator by Walsh transforms (utils::eval_poly, fwht with        *)
(* truncation: the truncated transform must equal the full one when the    *)
(* entries beyond truncated_size are zero)                                 *)
(***************************************************************************)
\* fwht(data, m_truncated): radix-4 passes over groups starting below m_truncated
FwhtTrunc(f, mt) ==
  LET passes == [t \in 1..(Bits \div 2) |-> 2*(t-1)]     \* dist = 2^e, dist4 = 2^(e+2) (Bits even on the fields that decode)
      pass(g, e) ==
        LET dist == 2^e  dist4 == 4 * dist IN
        [i \in Sym |->
           LET base == (i \div dist4) * dist4  off == i - base  lane == off % dist  q == off \div dist IN
           IF base >= mt THEN g[i]
           ELSE LET x0 == Canon(g[base + lane])  x1 == Canon(g[base + lane + dist])
                    x2 == Canon(g[base + lane + 2*dist])  x3 == Canon(g[base + lane + 3*dist])
                    s0 == AddMod(x0, x1)  d0 == SubMod(x0, x1)
                    s1 == AddMod(x2, x3)  d1 == SubMod(x2, x3)
                IN CASE q = 0 -> AddMod(s0, s1) [] q = 1 -> AddMod(d0, d1)
                     [] q = 2 -> SubMod(s0, s1) [] q = 3 -> SubMod(d0, d1)]
  IN FoldLeft(LAMBDA g, e: TLCEval(pass(g, e)), f, passes)
EvalPolyImpl(E, mt) ==
  LET a == FwhtTrunc(E, mt)
      b == [i \in Sym |-> (Canon(a[i]) * Canon(LogWalshDef[i])) % Modulus]
  IN FwhtTrunc(b, Order)

LowBit(i) == CHOOSE q \in {2^e : e \in 0..Bits} : i % q = 0 /\ (i \div q) % 2 = 1
FormalDerivative(w) ==
  FoldLeft(LAMBDA acc, i: XorWithin(acc, i - LowBit(i), i, LowBit(i)), w, [q \in 1..(Cardinality(DOMAIN w) - 1) |-> q])

(***************************************************************************)
(* Decoders.  gO, gR: sets of given original / recovery indexes;           *)
(* d, rec: the round's originals (sequence) and recovery (function).       *)
(* Positions that received nothing hold poison until the procedure         *)
(* overwrites them (it must).                                              *)
(***************************************************************************)
HighDecode(k, r, d, rec, gO, gR, poison) ==
  LET m    == NPot(r)
      oend == m + k
      wc   == NPot(oend)
      E == [i \in Sym |-> IF i < r THEN (IF i \in gR THEN 0 ELSE 1)
                          ELSE IF i < m THEN 1
                          ELSE IF i < oend THEN (IF (i - m) \in gO THEN 0 ELSE 1) ELSE 0]
      L == EvalPolyImpl(E, oend)
      wIn == [p \in 0..(wc-1) |-> IF p < r /\ p \in gR THEN rec[p]
                                  ELSE IF p >= m /\ p < oend /\ (p - m) \in gO THEN d[p-m+1] ELSE poison]
      \* multiply received shards by the locator, zero everything else
      w0 == [p \in 0..(wc-1) |-> IF p < r THEN (IF p \in gR THEN MulLog(wIn[p], L[p]) ELSE 0)
                                 ELSE IF p < m THEN 0
                                 ELSE IF p < oend THEN (IF (p - m) \in gO THEN MulLog(wIn[p], L[p]) ELSE 0)
                                 ELSE 0]
      w1 == Ifft(w0, 0, wc, oend, 0)
      w2 == FormalDerivative(w1)
      w3 == Fft(w2, 0, wc, oend, 0)
  IN [i \in (0..(k-1)) \ gO |-> MulLog(w3[m+i], Modulus - Canon(L[m+i]))]

LowDecode(k, r, d, rec, gO, gR, poison) ==
  LET m    == NPot(k)
      rend == m + r
      wc   == NPot(rend)
      E == [i \in Sym |-> IF i < k THEN (IF i \in gO THEN 0 ELSE 1)
                          ELSE IF i < m THEN 0
                          ELSE IF i < rend THEN (IF (i - m) \in gR THEN 0 ELSE 1) ELSE 1]
      L == EvalPolyImpl(E, Order)
      wIn == [p \in 0..(wc-1) |-> IF p < k /\ p \in gO THEN d[p+1]
                                  ELSE IF p >= m /\ p < rend /\ (p - m) \in gR THEN rec[p-m] ELSE poison]
      w0 == [p \in 0..(wc-1) |-> IF p < k THEN (IF p \in gO THEN MulLog(wIn[p], L[p]) ELSE 0)
                                 ELSE IF p < m THEN 0
                                 ELSE IF p < rend THEN (IF (p - m) \in gR THEN MulLog(wIn[p], L[p]) ELSE 0)
                                 ELSE 0]
      w1 == Ifft(w0, 0, wc, rend, 0)
      w2 == FormalDerivative(w1)
      w3 == Fft(w2, 0, wc, rend, 0)
  IN [i \in (0..(k-1)) \ gO |-> MulLog(w3[i], Modulus - Canon(L[i]))]

AlgoDecode(rate, k, r, d, rec, gO, gR, poison) ==
  IF rate = "high" THEN HighDecode(k, r, d, rec, gO, gR, poison) ELSE LowDecode(k, r, d, rec, gO, gR, poison)
=============================================================================
