SPECIFICATION Spec
CONSTANTS Bits = 4
          Poly = 19
          Basis <- BasisFor
INVARIANTS PrimInv EvalInv
CHECK_DEADLOCK FALSE
