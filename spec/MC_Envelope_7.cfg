SPECIFICATION Spec
CONSTANTS Bits = 7
INVARIANT EnvInv
CHECK_DEADLOCK FALSE
