SPECIFICATION Spec
CONSTANTS Palette = 2
          Depth = 3
INVARIANTS ShTypeOK Nested RootClosed EmitScript
PROPERTY FrameProp
CHECK_DEADLOCK FALSE
