SPECIFICATION Spec
CONSTANTS Bits = 4
          Poly = 19
          Basis <- BasisFor
INVARIANT FieldInv
CHECK_DEADLOCK FALSE
