---------------------------- MODULE Trace_Envelope ----------------------------
(***************************************************************************)
(* Validation of recorded rows of the supports() predicates / the private  *)
(* rate rule (as run-lengths over recovery_count = 0 .. 65537) and of      *)
(* validate / new results at envelope corners, against Envelope.tla (the   *)
(* README table read literally) and CodecRules.tla.  Events are            *)
(* independent: star-shaped validation, see Trace_Code.tla.                *)
(***************************************************************************)
EXTENDS CodecRules, Json, IOUtils, TLC

Rec == ndJsonDeserialize(IOEnv.TRACE)
N   == Len(Rec)

VARIABLES l, ph
vars == <<l, ph>>
Init == l = 0 /\ ph = 0
Next == \/ l = 0 /\ l' \in 1..N /\ ph' = 0
        \/ l > 0 /\ ph = 0 /\ ph' = 1 /\ l' = l
Spec == Init /\ [][Next]_vars

Has(e, f) == f \in DOMAIN e

\* which specification predicate a recorded predicate must equal
BasePred(p) == CASE p \in {"high", "high_enc", "high_dec"} -> "high"
                 [] p \in {"low", "low_enc", "low_dec"} -> "low"
                 [] p \in {"default", "default_enc", "default_dec", "rs_enc", "rs_dec"} -> "default"
                 [] p = "rule" -> "rule"

RowOK(e) ==
  /\ e.k0 >= 0 /\ e.k0 <= e.k1 /\ e.k1 <= EOrder + 1
  /\ \A k \in e.k0..e.k1 : RowRuns(BasePred(e.pred), k) = e.runs

ValOK(e) ==
  LET al == AllowedOf(ConfigViolations(e.kind, e.k, e.r, e.sb)) IN
  /\ e.validate \in al
  /\ \A f \in {"validate_enc", "validate_dec", "new_enc", "new_dec", "rate_enc", "rate_dec", "rs_enc", "rs_dec",
                  "reset_enc", "reset_dec", "rs_reset_enc", "rs_reset_dec"} :
        Has(e, f) => e[f] \in al

EventOK(e) == CASE e.ev = "row" -> RowOK(e) [] e.ev = "val" -> ValOK(e) [] OTHER -> FALSE
TraceInv == ph = 1 => \A e \in {Rec[l]} : EventOK(e)
AllSeen == TLCGet("stats").distinct = 2 * N + 1
=============================================================================
