----------------------------- MODULE Trace_Codec -----------------------------
(***************************************************************************)
(* Trace validation of recorded object histories against Codec.tla.  One   *)
(* event per public call: arguments, return value, snapshot of the real    *)
(* object's bookkeeping (hook H2), digests of the shards a result exposed  *)
(* next to the digests of a fresh reference codec, and - when measured -   *)
(* the bytes allocated during the call.  A "new" event starts a history on *)
(* a fresh object (several histories are concatenated in one file).        *)
(*                                                                         *)
(* Each trace action is  IsEvent /\ the Codec action with the logged       *)
(* arguments /\ logged return value among the allowed ones /\ logged       *)
(* snapshot = the specification's next state /\ assertions.                *)
(***************************************************************************)
EXTENDS Codec, Json, IOUtils, SequencesExt

Rec == ndJsonDeserialize(IOEnv.TRACE)
N   == Len(Rec)

VARIABLES l,
          pcap,    \* capacity (in blocks) of the working space before the call, as the previous snapshot reported it
          pbm      \* decoder: length (bits) and address of the index bitmap before the call, from the previous snapshot
tvars == <<vars, l, pcap, pbm>>

Has(e, f) == f \in DOMAIN e

TraceInit ==
  /\ l = 1 /\ pcap = 0 /\ pbm = [bits |-> 0, ptr |-> ""]
  /\ kind = "none" /\ cfg = [k |-> 1, r |-> 1, sb |-> 2] /\ rate = "high"
  /\ added = <<>> /\ gotO = {} /\ gotR = {} /\ res = "none"
  /\ held = [blocks |-> 0, bits |-> 0]
  /\ last = [act |-> "none"]

\* construction of a fresh object (the primed form of Codec!InitWith)
NewObj(kd, k, r, sb) ==
  /\ ConfigViolations(kd, k, r, sb) = {}
  /\ LET rt == RateOf(SuppKind(kd), k, r) IN
     /\ kind' = kd /\ cfg' = [k |-> k, r |-> r, sb |-> sb] /\ rate' = rt
     /\ added' = <<>> /\ gotO' = {} /\ gotR' = {} /\ res' = "none"
     /\ held' = [blocks |-> NeedBlocks(rt, k, r, sb), bits |-> NeedBits(rt, k, r)]
     /\ last' = [act |-> "new", allowed |-> OK, may_alloc |-> TRUE]

SeqToSet(s) == {s[t] : t \in DOMAIN s}

\* the logged snapshot equals the specification's (next) state
SnapOK(e) ==
  LET s == e.snap IN
  /\ ~Has(s, "missing")
  /\ s.kind = kind' /\ s.rate = rate'
  /\ s.k = cfg'.k /\ s.r = cfg'.r /\ s.sb = cfg'.sb
  /\ s.live = (res' = "live")
  \* the round's bookkeeping - except while a result is outstanding: the object is mutably borrowed then, no call can
  \* observe the counters, and an implementation may clear them at the end of the round or when the result is dropped;
  \* the received originals are still compared (restored_original depends on them)
  /\ IF Role = "enc" THEN (res' # "live" => s.oc = Len(added'))
     ELSE /\ SeqToSet(s.gotO) = gotO'
          /\ res' # "live" => /\ SeqToSet(s.gotR) = gotR'
                               /\ s.oc = Cardinality(gotO') /\ s.rc = Cardinality(gotR') /\ s.stray = 0
  \* at least the positions the algorithm needs (Envelope.tla); where they are placed shows in the bytes of the results
  /\ s.wc >= (IF Role = "enc" THEN WorkCountEnc(rate', cfg'.k, cfg'.r) ELSE WorkCountDec(rate', cfg'.k, cfg'.r))
  \* the buffer covers the configuration's need (it may be longer: how much of the owned memory is kept "in use"
  \* between configurations is not observable and not part of any property)
  /\ s.len >= s.wc * Blocks(cfg'.sb) /\ s.cap >= s.len
  \* DecWork!LayoutOK on the real object: the two index ranges of the shared bitmap are disjoint and lie inside the
  \* bitmap and inside the work positions - WHERE they lie is not pinned (an overlap would make an original pass for a
  \* recovery shard of another index; a range outside the bitmap or the work positions is an index panic waiting for
  \* the right index)
  /\ (Role = "dec" /\ Has(s, "obase") /\ Has(s, "rbase") /\ Has(s, "bits")) =>
        /\ (s.obase + s.k <= s.rbase \/ s.rbase + s.r <= s.obase)
        /\ s.obase + s.k <= s.bits /\ s.rbase + s.r <= s.bits
        /\ s.obase + s.k <= s.wc /\ s.rbase + s.r <= s.wc

\* the return value is one of the allowed ones
\* (the Display text of an error is recorded in the trace but not constrained: no property speaks about wording)
RetOK(e) == e.ret \in last'.allowed

(***************************************************************************)
(* C17: a call the specification says needs no more working space than the *)
(* object already holds must not allocate shard-proportional memory and    *)
(* must leave the buffer where it is.  "Shard-proportional" is decided on  *)
(* histories with HUGE shards (>= 400 000 bytes): anything at least one    *)
(* shard long.  With smaller shards a constant-size scratch allocation     *)
(* (say a 128 KiB array of 65 536 field elements moved from the stack to   *)
(* the heap) would be mistaken for one; there only the buffer's address    *)
(* and capacity are required to stay.                                      *)
(***************************************************************************)
HugeShard == 400000
\* "needs no more than is held" is decided from what the object itself reports: positions x blocks per shard after the
\* call against the capacity it had before the call (pcap)
\* (calls that do not reconfigure - accessors, adds, encode / decode - need nothing new)
NeedObs(e) == IF Has(e, "snap") /\ ~Has(e.snap, "missing") /\ Has(e.snap, "wc") THEN e.snap.wc * Blocks(cfg'.sb) ELSE 0
AllocOK(e) ==
  (Has(e, "abytes") /\ NeedObs(e) <= pcap /\ cfg'.sb >= 1024) =>
     /\ (cfg'.sb >= HugeShard => (IF Has(e, "amax") THEN e.amax ELSE e.abytes) < cfg'.sb)   \* largest single allocation
     /\ (Has(e, "ptr_same") => e.ptr_same)
\* C17, index bitmap ("the buffers are reused in place"; DecWork.tla: the bitmap is cleared and grown only when too
\* short): a call after which both index ranges fit the bitmap the object held before the call leaves the bitmap's
\* storage where it was
BitmapOK(e) ==
  (Role = "dec" /\ Has(e, "snap") /\ ~Has(e.snap, "missing") /\ Has(e.snap, "bptr") /\ pbm.ptr # "") =>
     \A s \in {e.snap} :
        (s.obase + s.k <= pbm.bits /\ s.rbase + s.r <= pbm.bits) => s.bptr = pbm.ptr
CapacityOK(e) ==
  \* the held working space never shrinks below what the history needed
  Has(e, "abytes") => e.snap.cap >= held'.blocks

\* digests of exposed shards: <<index, length, digest>> lists, in order
Idxs(lst) == [t \in DOMAIN lst |-> lst[t][1]]
OutOK(e, dom) ==
  /\ Len(e.out) = Cardinality(dom)
  /\ SeqToSet(Idxs(e.out)) = dom
  /\ \A t \in 1..(Len(e.out) - 1) : e.out[t][1] < e.out[t+1][1]       \* ascending index order
  /\ \A t \in DOMAIN e.out : e.out[t][2] = cfg.sb                      \* configured length
  /\ e.out = e.ref                                                      \* = fresh reference codec / the originals

\* nth / skip / step_by / last / count on fresh iterators agree with the view: ys = the exposed indexes, ascending
ProtoOK(e, dom) ==
  Has(e, "proto") =>
    LET ys == SetToSortSeq(dom, <)  n == Len(ys)  p == e.proto
        At(k) == IF k < n THEN ys[k+1] ELSE -1 IN
    /\ ~Has(p, "panic")
    /\ \A t \in DOMAIN p.nth : p.nth[t][2] = At(p.nth[t][1])
    /\ p.skip1 = (IF n = 0 THEN 0 ELSE n - 1)
    /\ p.cnt = n
    /\ p.last = (IF n = 0 THEN -1 ELSE ys[n])
    /\ p.second = At(1)
    /\ \A t \in DOMAIN p.step2 : p.step2[t] = At(2 * (t - 1))
    /\ Len(p.step2) = (IF (n + 1) \div 2 < 8 THEN (n + 1) \div 2 ELSE 8)

Step(e) ==
  CASE e.ev = "new"          -> NewObj(e.kind, e.k, e.r, e.sb) /\ RetOK(e) /\ SnapOK(e)
    [] e.ev = "reset"        -> Reset(e.k, e.r, e.sb) /\ RetOK(e) /\ SnapOK(e) /\ AllocOK(e) /\ CapacityOK(e) /\ BitmapOK(e)
    [] e.ev = "rehouse"      -> Rehouse(e.kind, e.k, e.r, e.sb) /\ RetOK(e) /\ SnapOK(e) /\ AllocOK(e) /\ CapacityOK(e) /\ BitmapOK(e)
    [] e.ev = "add"          -> EncAdd(e.pay, e.len) /\ RetOK(e) /\ SnapOK(e) /\ AllocOK(e)
    [] e.ev = "add_original" -> DecAdd("original", e.index, e.len) /\ RetOK(e) /\ SnapOK(e) /\ AllocOK(e) /\ BitmapOK(e)
    [] e.ev = "add_recovery" -> DecAdd("recovery", e.index, e.len) /\ RetOK(e) /\ SnapOK(e) /\ AllocOK(e) /\ BitmapOK(e)
    [] e.ev = "encode"       -> Encode /\ RetOK(e) /\ SnapOK(e) /\ AllocOK(e)
    [] e.ev = "decode"       -> Decode /\ RetOK(e) /\ SnapOK(e) /\ AllocOK(e) /\ BitmapOK(e)
    [] e.ev = "query"        -> /\ Query(e.index) /\ e.ret.some = last'.some /\ AllocOK(e)
                                /\ (e.ret.some => OutOK(e, {e.index}))
    [] e.ev = "iter"         -> /\ IterAll /\ e.ret.count = Cardinality(last'.yields) /\ e.ret.again = 0
                                /\ OutOK(e, last'.yields) /\ ProtoOK(e, last'.yields)
    [] e.ev = "drop"         -> Drop /\ SnapOK(e)
    [] OTHER                 -> FALSE

TraceNext == /\ l <= N
             /\ l' = l + 1
             /\ \E e \in {Rec[l]} : /\ e.role = Role /\ Step(e)
                                    /\ pcap' = IF e.ev = "drop" \/ ~Has(e, "snap") \/ Has(e.snap, "missing") \/ ~Has(e.snap, "cap") THEN pcap ELSE e.snap.cap
                                    /\ pbm' = IF e.ev = "drop" \/ ~Has(e, "snap") \/ Has(e.snap, "missing") \/ ~Has(e.snap, "bptr") THEN pbm
                                              ELSE [bits |-> e.snap.bits, ptr |-> e.snap.bptr]
TraceSpec == TraceInit /\ [][TraceNext]_tvars

\* the design invariants hold along every recorded history as well
TraceInv == kind # "none" => (TypeOK /\ RateConsistent /\ LiveImpliesEnough /\ HeldCovers)

TraceAccepted ==
  LET d == TLCGet("stats").diameter - 1 IN
  IF d = N THEN TRUE
  ELSE /\ PrintT(<<"TRACE-MATCHED", d, "of", N>>)
       /\ PrintT(<<"TRACE-REJECTED at line", d + 1>>)
       /\ FALSE
=============================================================================
