SPECIFICATION Spec
CONSTANTS Bits = 8
          Poly = 285
          Basis <- BasisFor
          MaxN = 8
          MaxCfg = 13
          Corners = FALSE
INVARIANTS EncInv DecInv
CHECK_DEADLOCK FALSE
