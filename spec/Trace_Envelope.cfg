SPECIFICATION Spec
CONSTANTS Bits = 16
INVARIANT TraceInv
POSTCONDITION AllSeen
CHECK_DEADLOCK FALSE
