SPECIFICATION Spec
CONSTANTS Bits = 8
INVARIANT EnvInv
CHECK_DEADLOCK FALSE
