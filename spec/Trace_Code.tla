----------------------------- MODULE Trace_Code -----------------------------
(***************************************************************************)
(* Trace validation of recorded encode / decode rounds of the real code    *)
(* against the closed-form code over GF(2^16) (Code.tla), the byte layout  *)
(* (Layout.tla) and the rate rule (Envelope.tla).                          *)
(*                                                                         *)
(* Events are independent of each other (cross references go through the   *)
(* constant Rec), so the trace is validated as a two-level tree: the root  *)
(* fans out to one state per event, and each of those takes one step on    *)
(* which the event's obligations are evaluated - that puts the evaluation  *)
(* on TLC's worker threads.  A rejected event is an invariant violation    *)
(* whose state names the line.                                             *)
(***************************************************************************)
EXTENDS Code, Layout, Envelope, Json, IOUtils, Integers

Basis16 == <<1, 44234, 15374, 5694, 50562, 60718, 37196, 16402,
             27800, 4312, 27250, 47360, 64952, 64308, 65336, 39198>>

Rec == ndJsonDeserialize(IOEnv.TRACE)
N   == Len(Rec)

VARIABLES l, ph
vars == <<l, ph>>
Init == l = 0 /\ ph = 0
Next == \/ l = 0 /\ l' \in 1..N /\ ph' = 0
        \/ l > 0 /\ ph = 0 /\ ph' = 1 /\ l' = l
Spec == Init /\ [][Next]_vars

Has(e, f) == f \in DOMAIN e
SeqSet(s) == {s[t] : t \in DOMAIN s}
Min2(a, b) == IF a < b THEN a ELSE b

(***************************************************************************)
(* enc: one encode round.                                                  *)
(***************************************************************************)
RateFits(e) ==
  /\ e.rate \in {"high", "low"}
  /\ (e.kind = "high" => e.rate = "high")
  /\ (e.kind = "low" => e.rate = "low")
  /\ (e.kind \in {"default", "rs", "oneshot"} => e.rate = RateOf("default", e.k, e.r))
  /\ Supports(e.rate, e.k, e.r)

\* the symbol of original i (0-based) at slot s, and the set of originals that can be non-zero
Dense(e) == Has(e, "orig")
OrigCount(e) == IF Dense(e) THEN e.k ELSE Len(e.nz)
OrigIdx(e, t) == IF Dense(e) THEN t - 1 ELSE e.nz[t]
OrigSym(e, t, s) == IF Dense(e) THEN SymbolAt(e.orig[t], e.sb, s) ELSE SymbolAt(e.orignz[t], e.sb, s)

Expected(e, pre, j, s) ==
  XorSeq([t \in 1..OrigCount(e) |->
            LET d == OrigSym(e, t, s) IN
            IF d = 0 THEN 0 ELSE Mul(GPre(e.rate, pre, j, OrigIdx(e, t)), d)])

Budget == 600000
SlotsOf(e) == IF e.all THEN 0..(Slots(e.sb) - 1) ELSE CheckSlots(e.sb, e.hint)
\* recovery indexes evaluated: everything when affordable, else ends, chunk edges and a spread
JsFull(e, nslots) ==
  LET r == e.r  cost == (OrigCount(e) + 1) * nslots IN
  IF cost * r <= Budget THEN 0..(r-1)
  ELSE LET cnt == IF Budget \div cost < 6 THEN 6 ELSE Budget \div cost
           m == IF e.rate = "high" THEN NPot(e.r) ELSE NPot(e.k)
           stride == (r \div cnt) + 1 IN
       {j \in {0, 1, r - 1, r - 2, m - 1, m, r \div 2} : j >= 0 /\ j < r}
       \cup {(e.hint + t * stride) % r : t \in 0..(cnt - 1)}

EncOK(e) ==
  /\ ~Has(e, "fail")
  /\ RateFits(e)
  /\ e.sb >= 2 /\ e.sb % 2 = 0
  /\ IF Dense(e) THEN Len(e.orig) = e.k /\ \A t \in 1..e.k : Len(e.orig[t]) = e.sb
                 ELSE Len(e.orignz) = Len(e.nz) /\ \A t \in 1..Len(e.nz) : Len(e.orignz[t]) = e.sb /\ e.nz[t] < e.k
  \* bound through quantifiers, not LET: TLC binds quantified variables to evaluated values, whereas
  \* LET definitions and operator arguments that depend on the state are re-evaluated at every use
  /\ \A pre \in {Pre(e.rate, e.k, e.r)} : \A slots \in {SlotsOf(e)} :
     IF Has(e, "rec")
     THEN /\ Len(e.rec) = e.r
          /\ \A j \in 1..e.r : Len(e.rec[j]) = e.sb
          /\ \A j \in JsFull(e, Cardinality(slots)) : \A s \in slots :
                SymbolAt(e.rec[j+1], e.sb, s) = Expected(e, pre, j, s)
     ELSE /\ Len(e.recj) >= Min2(e.r, 16)
          /\ 0 \in {e.recj[t][1] : t \in DOMAIN e.recj}
          /\ (e.r - 1) \in {e.recj[t][1] : t \in DOMAIN e.recj}
          /\ LET cost == (OrigCount(e) + 1) * Cardinality(slots)
                 cnt == IF Budget \div cost < 6 THEN 6 ELSE Budget \div cost IN
             \A t \in 1..Min2(Len(e.recj), cnt) :
                LET j == e.recj[t][1]  bytes == e.recj[t][2] IN
                /\ j >= 0 /\ j < e.r /\ Len(bytes) = e.sb
                /\ \A s \in slots : SymbolAt(bytes, e.sb, s) = Expected(e, pre, j, s)

(***************************************************************************)
(* dec: one decode round.  The shards given are a consistent codeword      *)
(* (originals + a reference encoder's recovery, itself pinned by enc       *)
(* events); any set of at least k of them must restore exactly the missing *)
(* originals, in ascending order, with the configured length.              *)
(***************************************************************************)
DecOK(e) ==
  LET gO == SeqSet(e.gO)  gR == SeqSet(e.gR)  missing == Missing(e.k, gO) IN
  /\ RateFits(e)
  /\ gO \subseteq 0..(e.k-1) /\ gR \subseteq 0..(e.r-1)
  /\ Cardinality(gO) = Len(e.gO) /\ Cardinality(gR) = Len(e.gR)      \* distinct shards were given
  /\ Restorable(e.k, gO, gR)                                          \* the driver only records sufficient sets
  /\ ~Has(e, "fail")                                                  \* ... so decode must succeed
  /\ IF Has(e, "restored")
     THEN /\ Len(e.odig) = Cardinality(missing)
          /\ Len(e.restored) = Cardinality(missing)
          /\ \A t \in DOMAIN e.restored :
                LET i == e.restored[t][1] IN
                /\ i \in missing
                /\ e.restored[t][2] = e.sb                             \* exactly the configured size
                /\ e.restored[t] = e.odig[t]                           \* byte for byte the original (digest)
                /\ (t > 1 => e.restored[t-1][1] < i)                   \* ascending, hence each exactly once
     ELSE \* large rounds: index list in full, one digest over all restored shards in order
          /\ Len(e.ridx) = Cardinality(missing)
          /\ \A t \in DOMAIN e.ridx : e.ridx[t] \in missing /\ (t > 1 => e.ridx[t-1] < e.ridx[t])
          /\ e.rlenok
          /\ e.rdigall = e.odigall
  /\ e.again = 0                                                      \* None forever after exhaustion
  \* nth / skip / step_by / last / count on fresh iterators agree with the missing set
  /\ (Has(e, "proto") =>
        LET ys == SetToSortSeq(missing, <)  n == Len(ys)  p == e.proto
            At(k) == IF k < n THEN ys[k+1] ELSE -1 IN
        /\ \A t \in DOMAIN p.nth : p.nth[t][2] = At(p.nth[t][1])
        /\ p.skip1 = (IF n = 0 THEN 0 ELSE n - 1) /\ p.cnt = n /\ p.second = At(1)
        /\ p.last = (IF n = 0 THEN -1 ELSE ys[n])
        /\ \A t \in DOMAIN p.step2 : p.step2[t] = At(2 * (t - 1)))
  /\ \A t \in DOMAIN e.probes : e.probes[t][2] = (e.probes[t][1] \in missing)

(***************************************************************************)
(* lin / scal / same: relations between enc events (cross references are   *)
(* line offsets relative to the relation's own line; a group of events      *)
(* that refer to each other carries the same "g" and is never split).  The input relation is checked here too,   *)
(* so a wrong xor or product computed by the driver cannot pass.           *)
(***************************************************************************)
SameShape(a, b) == /\ a.ev = "enc" /\ b.ev = "enc" /\ a.k = b.k /\ a.r = b.r /\ a.sb = b.sb
                   /\ a.rate = b.rate /\ ~Has(a, "fail") /\ ~Has(b, "fail")
                   /\ Dense(a) /\ Dense(b) /\ Has(a, "rec") = Has(b, "rec")
RecCount(e) == IF Has(e, "rec") THEN Len(e.rec) ELSE Len(e.recj)
RecBytes(e, t) == IF Has(e, "rec") THEN e.rec[t] ELSE e.recj[t][2]
RecIndex(e, t) == IF Has(e, "rec") THEN t - 1 ELSE e.recj[t][1]
XorBytes(x, y) == [n \in DOMAIN x |-> x[n] ^^ y[n]]

LinOK(e, ln) ==
  \A a \in {Rec[ln + e.a]} : \A b \in {Rec[ln + e.b]} : \A c \in {Rec[ln + e.ab]} :
  /\ SameShape(a, b) /\ SameShape(a, c)
  /\ \A i \in 1..a.k : c.orig[i] = XorBytes(a.orig[i], b.orig[i])
  /\ RecCount(a) = RecCount(b) /\ RecCount(a) = RecCount(c)
  /\ \A t \in 1..RecCount(a) :
        /\ RecIndex(a, t) = RecIndex(b, t) /\ RecIndex(a, t) = RecIndex(c, t)
        /\ RecBytes(c, t) = XorBytes(RecBytes(a, t), RecBytes(b, t))

ScalOK(e, ln) ==
  \A a \in {Rec[ln + e.a]} : \A c \in {Rec[ln + e.ca]} :
  /\ SameShape(a, c)
  /\ \A i \in 1..a.k : \A s \in 0..(Slots(a.sb) - 1) :
        SymbolAt(c.orig[i], a.sb, s) = Mul(e.c, SymbolAt(a.orig[i], a.sb, s))
  /\ RecCount(a) = RecCount(c)
  /\ \A t \in 1..RecCount(a) :
        /\ RecIndex(a, t) = RecIndex(c, t)
        /\ \A s \in 0..(Slots(a.sb) - 1) :
              SymbolAt(RecBytes(c, t), a.sb, s) = Mul(e.c, SymbolAt(RecBytes(a, t), a.sb, s))

\* a default-rate kind and the dedicated codec of the rate the RULE fixes give the same bytes
SameOK(e, ln) ==
  \A a \in {Rec[ln + e.a]} : \A b \in {Rec[ln + e.b]} :
  /\ SameShape(a, b)
  /\ a.kind \in {"default", "rs", "oneshot"}
  /\ b.kind = RateOf("default", a.k, a.r)
  /\ a.orig = b.orig
  /\ RecCount(a) = RecCount(b)
  /\ \A t \in 1..RecCount(a) : RecIndex(a, t) = RecIndex(b, t) /\ RecBytes(a, t) = RecBytes(b, t)

\* the same round on several engines: identical input, identical recovery bytes
AllEqOK(e, ln) ==
  \A a \in {Rec[ln + e.refs[1]]} :
     \A t \in 2..Len(e.refs) : \A b \in {Rec[ln + e.refs[t]]} :
        /\ SameShape(a, b) /\ a.orig = b.orig /\ a.kind = b.kind /\ a.engine # b.engine
        /\ RecCount(a) = RecCount(b)
        /\ \A u \in 1..RecCount(a) : RecIndex(a, u) = RecIndex(b, u) /\ RecBytes(a, u) = RecBytes(b, u)

\* a large round on every engine: identical digests over all recovery shards, right number of shards
XencOK(e) ==
  /\ Supports(e.rate, e.k, e.r)
  /\ Cardinality(DOMAIN e.digs) >= 2
  /\ \A g, h \in DOMAIN e.digs : e.digs[g] = e.digs[h]
  /\ \A g \in DOMAIN e.digs : \E t \in 1..6 : SubSeq(e.digs[g], 1, t) = ToString(e.r) \o ":"

EventOK(e, ln) ==
  CASE e.ev = "enc"  -> EncOK(e)
    [] e.ev = "dec"  -> DecOK(e)
    [] e.ev = "lin"  -> LinOK(e, ln)
    [] e.ev = "scal" -> ScalOK(e, ln)
    [] e.ev = "same" -> SameOK(e, ln)
    [] e.ev = "alleq" -> AllEqOK(e, ln)
    [] e.ev = "xenc" -> XencOK(e)
    [] OTHER -> FALSE        \* an event the specification has no action for (e.g. a panic) is rejected

TraceInv == ph = 1 => \A e \in {Rec[l]} : EventOK(e, l)
\* every event was visited
AllSeen == TLCGet("stats").distinct = 2 * N + 1
=============================================================================
