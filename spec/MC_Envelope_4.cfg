SPECIFICATION Spec
CONSTANTS Bits = 4
INVARIANT EnvInv
CHECK_DEADLOCK FALSE
