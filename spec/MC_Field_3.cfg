SPECIFICATION Spec
CONSTANTS Bits = 3
          Poly = 11
          Basis <- BasisFor
INVARIANT FieldInv
CHECK_DEADLOCK FALSE
