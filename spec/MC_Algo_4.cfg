SPECIFICATION Spec
CONSTANTS Bits = 4
          Poly = 19
          Basis <- BasisFor
          MaxN = 7
          MaxCfg = 9
INVARIANTS EncInv DecInv
CHECK_DEADLOCK FALSE
