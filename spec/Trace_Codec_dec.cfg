SPECIFICATION TraceSpec
CONSTANTS Bits = 16
          Role = "dec"
INVARIANT TraceInv
POSTCONDITION TraceAccepted
CHECK_DEADLOCK FALSE
