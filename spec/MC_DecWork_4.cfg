SPECIFICATION Spec
CONSTANTS Bits = 4
MaxK = 4
MaxR = 4
INVARIANT DInv
PROPERTY StepOK
CHECK_DEADLOCK FALSE
