SPECIFICATION Spec
CONSTANTS Bits = 4
          Poly = 19
          Basis <- BasisFor
          MaxN = 9
          MaxCfg = 16
          Corners = FALSE
INVARIANTS EncInv DecInv
CHECK_DEADLOCK FALSE
