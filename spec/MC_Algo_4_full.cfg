SPECIFICATION Spec
CONSTANTS Bits = 4
          Poly = 19
          Basis <- BasisFor
          MaxN = 9
          MaxCfg = 16
INVARIANTS EncInv DecInv
CHECK_DEADLOCK FALSE
