------------------------------- MODULE Layout -------------------------------
(***************************************************************************)
(* Documented byte placement of 16-bit symbols inside a shard of sb bytes  *)
(* (sb even, non-zero): in each full 64-byte block 32 low bytes then 32    *)
(* high bytes; in a shorter final block of t bytes, t/2 low bytes then     *)
(* t/2 high bytes.  Shards are 1-based sequences of bytes (JSON arrays).   *)
(***************************************************************************)
EXTENDS Naturals, Sequences

Slots(sb) == sb \div 2
FullBlocks(sb)  == sb \div 64
TailLen(sb)  == sb % 64

\* 0-based byte offsets of the low and high byte of slot s (0 <= s < Slots(sb))
LoOff(sb, s) == LET q == s \div 32  l == s % 32 IN
                IF q < FullBlocks(sb) THEN 64 * q + l ELSE 64 * FullBlocks(sb) + l
HiOff(sb, s) == LET q == s \div 32  l == s % 32 IN
                IF q < FullBlocks(sb) THEN 64 * q + 32 + l ELSE 64 * FullBlocks(sb) + (TailLen(sb) \div 2) + l

SymbolAt(bytes, sb, s) == bytes[LoOff(sb, s) + 1] + 256 * bytes[HiOff(sb, s) + 1]
LoByte(sym) == sym % 256
HiByte(sym) == sym \div 256

\* every byte offset is the low or high byte of exactly one slot
OffsetsPartition(sb) ==
  LET offs == {LoOff(sb, s) : s \in 0..(Slots(sb)-1)} \cup {HiOff(sb, s) : s \in 0..(Slots(sb)-1)}
  IN /\ offs = 0..(sb-1)
     /\ \A s1, s2 \in 0..(Slots(sb)-1) :
           /\ LoOff(sb, s1) # HiOff(sb, s2)
           /\ (s1 # s2 => LoOff(sb, s1) # LoOff(sb, s2) /\ HiOff(sb, s1) # HiOff(sb, s2))

\* slots the trace specifications evaluate for a shard of sb bytes: block
\* boundaries, the whole tail block and both ends (plus an event-supplied hint)
CheckSlots(sb, hint) ==
  LET n == Slots(sb) f == FullBlocks(sb) IN
  {s \in {0, 1, 31, 32, 33, n - 1, n - 2, 32 * f - 1, 32 * f, 32 * f + 1, hint % n} : s >= 0 /\ s < n}
  \cup (IF TailLen(sb) > 0 /\ n <= 96 THEN (32 * f)..(n - 1) ELSE {})
=============================================================================
