----------------------------- MODULE MC_OneShot -----------------------------
(***************************************************************************)
(* Every short argument list of the one-shot functions over a palette:     *)
(* (1) the streaming fold's outcome lies inside the contract and is Ok iff *)
(*     the contract is empty (the two formulations of the specification    *)
(*     agree);                                                             *)
(* (2) every case is printed with its allowed set for the harness to run   *)
(*     on the real functions.                                              *)
(***************************************************************************)
EXTENDS OneShot, Json, TLC

CONSTANTS MaxShards     \* bound on the total number of shards passed
B == 64                 \* base shard size

\* counts: powers of two and not (the padded positions between a count and its power of two must be rejected), both rates, unsupported ones
Pairs == {<<2, 1>>, <<1, 2>>, <<2, 2>>, <<3, 2>>, <<3, 3>>, <<2, 3>>, <<0, 1>>, <<1, 0>>, <<65536, 1>>, <<-1, 1>>}
LenPal == {B, B + 2, 1, 0}
IdxPal(cnt) == {0, 1, -1} \cup (IF cnt >= 1 /\ cnt < 10 THEN {cnt - 1, cnt} ELSE {})
Items(cnt) == {<<i, len>> : i \in IdxPal(cnt), len \in LenPal}

SeqsUpTo(S, n) == UNION {[1..m -> S] : m \in 0..n}

VARIABLES case
Init == case = [fn |-> "none"]
Next ==
  /\ case.fn = "none"
  /\ \/ \E p \in Pairs : \E n \in 0..MaxShards : \E L \in [1..n -> LenPal] :
           case' = [fn |-> "encode", k |-> p[1], r |-> p[2], L |-> L]
     \/ \E p \in Pairs : \E a \in 0..MaxShards : \E b \in 0..(MaxShards - a) :
           \E O \in [1..a -> Items(p[1])], R \in [1..b -> Items(p[2])] :
           case' = [fn |-> "decode", k |-> p[1], r |-> p[2], O |-> O, R |-> R]
Spec == Init /\ [][Next]_case

Allowed(c) == IF c.fn = "encode" THEN AllowedOf(EncodeContract(c.k, c.r, c.L))
              ELSE AllowedOf(DecodeAllowed(c.k, c.r, c.O, c.R))
Stream(c) == IF c.fn = "encode" THEN StreamEncode(c.k, c.r, c.L) ELSE StreamDecode(c.k, c.r, c.O, c.R)

\* the streaming API, folded over the arguments, satisfies the contract
FoldInsideContract ==
  case.fn # "none" =>
     /\ (Stream(case) = {} <=> Allowed(case) = OK)
     /\ (Stream(case) # {} => Stream(case) \subseteq Allowed(case))

Emit == PrintT(<<"CASE", ToJson(
          IF case'.fn = "encode"
          THEN [fn |-> "encode", k |-> case'.k, r |-> case'.r, L |-> case'.L, allowed |-> Allowed(case'),
                rate |-> RateOf("default", IF SupportsE("default", case'.k, case'.r) THEN case'.k ELSE 1,
                                           IF SupportsE("default", case'.k, case'.r) THEN case'.r ELSE 1)]
          ELSE [fn |-> "decode", k |-> case'.k, r |-> case'.r, O |-> case'.O, R |-> case'.R, allowed |-> Allowed(case'),
                restored |-> IF Allowed(case') = OK THEN RestoredDomain(case'.k, case'.O) ELSE {},
                rate |-> RateOf("default", IF SupportsE("default", case'.k, case'.r) THEN case'.k ELSE 1,
                                           IF SupportsE("default", case'.k, case'.r) THEN case'.r ELSE 1)])>>)
=============================================================================
