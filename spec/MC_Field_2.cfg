SPECIFICATION Spec
CONSTANTS Bits = 2
          Poly = 7
          Basis <- BasisFor
INVARIANT FieldInv
CHECK_DEADLOCK FALSE
