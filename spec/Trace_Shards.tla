---------------------------- MODULE Trace_Shards ----------------------------
(***************************************************************************)
(* Trace validation of recorded call sequences on the real                 *)
(* engine::ShardsRefMut / engine::utils::{xor, xor_within} against         *)
(* Shards.tla.  One event per call: the arguments, what the call returned, *)
(* and the content of EVERY chunk of the underlying buffer after the call  *)
(* (each chunk started with its own bit set, so its bytes are a set of     *)
(* atoms; the harness lists the set bits and flags any chunk whose 64      *)
(* bytes are not such a set).  A "new" event starts a fresh buffer.        *)
(***************************************************************************)
EXTENDS Shards, Json, IOUtils, TLC

Rec == ndJsonDeserialize(IOEnv.TRACE)
N   == Len(Rec)

VARIABLE l
tvars == <<svars, l>>

SetOf(s) == {s[t] : t \in DOMAIN s}
FlatOf(e) == [p \in DOMAIN e.flat |-> SetOf(e.flat[p])]

TraceInit ==
  /\ l = 1
  /\ flat = <<>> /\ views = <<[off |-> 0, count |-> 0, len |-> 0]>> /\ obs = [op |-> "none"]

NewBuf(total, count, len) ==
  /\ total >= count * len
  /\ flat' = [p \in 1..total |-> {p - 1}]
  /\ views' = <<[off |-> 0, count |-> count, len |-> len]>>
  /\ obs' = [op |-> "new"]

ShardRet(e) == [t \in DOMAIN e.shard |-> SetOf(e.shard[t])]

Step(e) ==
  CASE e.ev = "new"        -> NewBuf(e.total, e.count, e.len)
    [] e.ev = "zero"       -> Zero(e.sk, e.a, e.ek, e.b)
    [] e.ev = "xor_within" -> XorWithin(e.x, e.y, e.c)
    [] e.ev = "dist2"      -> Dist2(e.pos, e.dist, e.dir)
    [] e.ev = "dist4"      -> Dist4(e.pos, e.dist)
    [] e.ev = "index"      -> Index(e.i) /\ ShardRet(e) = obs'.shard
    [] e.ev = "index_zero" -> IndexZero(e.i)
    [] e.ev = "query"      -> Query /\ e.len = obs'.len /\ e.empty = obs'.empty
    [] e.ev = "split"      -> Split(e.mid, e.side) /\ e.len = obs'.len
    [] e.ev = "pop"        -> Pop /\ e.len = obs'.len
    [] OTHER               -> FALSE

TraceNext == /\ l <= N
             /\ l' = l + 1
             /\ \E e \in {Rec[l]} : /\ ~("panic" \in DOMAIN e) /\ ~("garbled" \in DOMAIN e)
                                    /\ Step(e)
                                    /\ FlatOf(e) = flat'
TraceSpec == TraceInit /\ [][TraceNext]_tvars

TraceInv == Len(flat) > 0 => (ShTypeOK /\ Nested /\ RootClosed)

TraceAccepted ==
  LET d == TLCGet("stats").diameter - 1 IN
  IF d = N THEN TRUE
  ELSE /\ PrintT(<<"TRACE-MATCHED", d, "of", N>>)
       /\ PrintT(<<"TRACE-REJECTED at line", d + 1>>)
       /\ FALSE
=============================================================================
