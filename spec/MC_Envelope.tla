------------------------------ MODULE MC_Envelope ------------------------------
EXTENDS Envelope
VARIABLE c
Init == c = 0
Next == c < 7 /\ c' = c + 1
Spec == Init /\ [][Next]_c
EnvInv == CASE c = 1 -> ThmTable(Square(0)) [] c = 2 -> ThmRate(Square(0)) [] c = 3 -> ThmRows(Square(0))
            [] c = 4 -> ThmMonotone(Square(0)) [] c = 5 -> ThmSymmetric(Square(0)) [] c = 6 -> ThmWork(Square(0)) [] c = 7 -> ThmBreaks(Square(0)) [] OTHER -> TRUE
=============================================================================
