SPECIFICATION Spec
CONSTANTS Bits = 3
MaxK = 3
MaxR = 3
INVARIANT DInv
PROPERTY StepOK
CHECK_DEADLOCK FALSE
