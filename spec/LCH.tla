-------------------------------- MODULE LCH --------------------------------
(***************************************************************************)
(* What the engine primitives and the lookup tables MEAN (Lin-Chung-Han    *)
(* basis over the Cantor-basis subspaces).  Contracts, not procedures:     *)
(* the procedures are in Algo.tla.                                         *)
(***************************************************************************)
EXTENDS GF

(***************************************************************************)
(* Subspace polynomials.  V_j = {0 .. 2^j - 1} (symbols).                  *)
(*   Wp(j,x)   = PROD_{u in V_j} (x + u)                                   *)
(*   What(j,x) = Wp(j,x) / Wp(j,2^j)          normalised: What(j,2^j) = 1  *)
(*   X(i,x)    = PROD_{j in bits(i)} What(j,x)      the LCH basis          *)
(***************************************************************************)
Wp(j, x)   == Prod({x ^^ u : u \in 0..(2^j - 1)})
What(j, x) == Div(Wp(j, x), Wp(j, 2^j))
BitsOf(i)  == {j \in 0..(Bits-1) : (i \div (2^j)) % 2 = 1}
X(i, x)    == Prod({What(j, x) : j \in BitsOf(i)})

\* What(j, .) is GF(2)-linear (checked against What on the small fields
\* exhaustively and on samples at 16 bits): evaluate through a basis.
WhatBasis == [j \in 0..(Bits-1) |-> [b \in 1..Bits |-> What(j, Pow2[b])]]
WhatLin(j, x) == FoldLeft(LAMBDA acc, b: IF (x \div Pow2[b]) % 2 = 1 THEN acc ^^ WhatBasis[j][b] ELSE acc, 0, BitIdx)
XLin(i, x) == Prod({WhatLin(j, x) : j \in BitsOf(i)})

(***************************************************************************)
(* FFT contract: coefficients c (sequence, c[i+1] the coefficient of X_i)  *)
(* of a polynomial of degree < n  ->  its values at the points beta + p.   *)
(* Engine::fft(data,pos,size,trunc,skew_delta) computes, per symbol slot,  *)
(*    data[pos+p] := FFTSpec(old data[pos..pos+size), size, skew_delta, p) *)
(* for p < trunc.  Engine::ifft is the inverse when the inputs at and      *)
(* beyond trunc are zero.                                                  *)
(***************************************************************************)
FFTSpec(c, n, beta, p) == XorSet(LAMBDA i: Mul(c[i+1], XLin(i, beta ^^ p)), 0..(n-1))

(***************************************************************************)
(* Skew table: the butterfly factor at table index i is the logarithm of   *)
(* What(j, i - (2^j - 1)), j the number of trailing one bits of i; the     *)
(* value Modulus stands for a zero factor.                                 *)
(***************************************************************************)
TrailOnes(i) == CHOOSE j \in 0..Bits : (i % (2^j) = 2^j - 1) /\ ((i \div (2^j)) % 2 = 0)
SkewDef(i) == LET j == TrailOnes(i) IN Log[What(j, i - (2^j - 1))]
SkewLin(i) == LET j == TrailOnes(i) IN Log[WhatLin(j, i - (2^j - 1))]

(***************************************************************************)
(* Walsh-Hadamard transform over Z_Modulus (0 and Modulus both mean zero)  *)
(* and the erasure-locator evaluation.                                     *)
(***************************************************************************)
WLayer(f, dd) == [i \in Sym |-> IF (i \div dd) % 2 = 0 THEN AddMod(Canon(f[i]), Canon(f[i+dd]))
                                                     ELSE SubMod(Canon(f[i-dd]), Canon(f[i]))]
Fwht(f) == FoldLeft(LAMBDA g, b: TLCEval(WLayer(g, Pow2[b])), f, BitIdx)
Log0 == [i \in Sym |-> IF i = 0 THEN 0 ELSE Log[i]]
LogWalshDef == Fwht(Log0)
\* plain signed-sum definition of one Walsh coefficient, for cross-checking
Popcount(v) == Cardinality(BitsOf(v))
WalshAt(f, w) == FoldSet(LAMBDA x, acc: IF Popcount(x & w) % 2 = 0 THEN AddMod(acc, Canon(f[x])) ELSE SubMod(acc, Canon(f[x])), 0, Sym)

\* eval_poly's meaning: for every point x the discrete log of
\*   PROD_{j marked, j # x} (x xor j)    (mod Modulus, Modulus == 0)
EvalPolySpec(marks, x) == FoldSet(LAMBDA j, acc: IF j = x THEN acc ELSE AddMod(acc, Log[x ^^ j]), 0, marks)
\* the procedure eval_poly follows (checked equal to EvalPolySpec on the small fields)
EvalPolyProc(E) == LET a == Fwht(E)
                       lw == LogWalshDef
                       b == [i \in Sym |-> (Canon(a[i]) * Canon(lw[i])) % Modulus]
                   IN Fwht(b)

(***************************************************************************)
(* Multiplication tables.                                                  *)
(*   Mul16[lm][n][i]  = (i * 16^n) * g^lm                                   *)
(*   Mul128[lm].lo[n] / .hi[n] = the 16 low / high bytes of the same        *)
(*   products, little-endian inside a 128-bit lane.                        *)
(***************************************************************************)
Mul16Spec(lm, n, i) == MulLog(i * (16^n), lm)
=============================================================================
