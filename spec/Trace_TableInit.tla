--------------------------- MODULE Trace_TableInit ---------------------------
(***************************************************************************)
(* Validation of what fresh processes did when their threads raced to the  *)
(* first use of the lookup tables (hook H4), and of the results they       *)
(* produced.  Only protocol-independent facts are required of the code (a  *)
(* refactoring to per-thread tables would still pass):                     *)
(*   - per thread, initialiser begin/end events nest properly;             *)
(*   - no thread begins a table it is already initialising;                *)
(*   - a table initialised inside another one is one of the dependencies   *)
(*     the probes observed (the relation MC_TableInit explored);           *)
(*   - every thread's result equals sequential execution;                  *)
(*   - the process exits normally with all its results (no hang, panic).   *)
(***************************************************************************)
EXTENDS Naturals, Sequences, FiniteSets, TLC, Json, IOUtils

Rec == ndJsonDeserialize(IOEnv.TRACE)
N   == Len(Rec)
Obs == ndJsonDeserialize(IOEnv.DEPS)
SeqSet(s) == {s[i] : i \in DOMAIN s}
DepsOf(x) == UNION {SeqSet(Obs[i].deps) : i \in {i \in DOMAIN Obs : "table" \in DOMAIN Obs[i] /\ Obs[i].table = x}}

VARIABLES l, stacks, kind
vars == <<l, stacks, kind>>
Init == l = 1 /\ stacks = <<>> /\ kind = "none"

StackOf(t) == IF t \in DOMAIN stacks THEN stacks[t] ELSE <<>>
SetStack(t, s) == [u \in DOMAIN stacks \cup {t} |-> IF u = t THEN s ELSE stacks[u]]

Step(e) ==
  CASE e.ev = "proc" -> stacks' = <<>> /\ kind' = e.kind
    [] e.ev = "init" /\ e.begin ->
         LET s == StackOf(e.thread) IN
         /\ e.table \notin SeqSet(s)                                        \* no re-entrancy
         /\ (s # <<>> /\ kind = "race" => e.table \in DepsOf(s[Len(s)]))    \* nesting within the observed dependencies
         /\ stacks' = SetStack(e.thread, Append(s, e.table)) /\ UNCHANGED kind
    [] e.ev = "init" /\ ~e.begin ->
         LET s == StackOf(e.thread) IN
         /\ s # <<>> /\ s[Len(s)] = e.table                                  \* proper nesting
         /\ stacks' = SetStack(e.thread, SubSeq(s, 1, Len(s) - 1)) /\ UNCHANGED kind
    [] e.ev = "result" -> e.dig = e.expect /\ UNCHANGED <<stacks, kind>>     \* = sequential execution
    [] e.ev = "exit" ->
         /\ e.status = "ok"
         /\ \A t \in DOMAIN stacks : stacks[t] = <<>>
         /\ (kind = "race" => e.results = e.expected_results)
         /\ UNCHANGED <<stacks, kind>>
    [] OTHER -> FALSE                                                        \* e.g. a panic event

Next == l <= N /\ l' = l + 1 /\ \E e \in {Rec[l]} : Step(e)
Spec == Init /\ [][Next]_vars
TraceAccepted ==
  LET d == TLCGet("stats").diameter - 1 IN
  IF d = N THEN TRUE ELSE PrintT(<<"TRACE-MATCHED", d, "of", N>>) /\ PrintT(<<"TRACE-REJECTED at line", d + 1>>) /\ FALSE
=============================================================================
