SPECIFICATION Spec
CONSTANTS Bits = 2
          Poly = 7
          Basis <- BasisFor
INVARIANTS PrimInv EvalInv
CHECK_DEADLOCK FALSE
