SPECIFICATION Spec
CONSTANTS Bits = 2
          Poly = 7
          Basis <- BasisFor
          MaxN = 4
          MaxCfg = 4
INVARIANTS EncInv DecInv
CHECK_DEADLOCK FALSE
