"""Shared machinery for the checks: harness build, TLC runs, trace validation, evidence."""
import json, os, re, shutil, subprocess, sys, time, hashlib
from concurrent.futures import ThreadPoolExecutor

VERIF = os.path.dirname(os.path.dirname(os.path.abspath(__file__)))
REPO = os.environ.get("VERIF_REPO", "/repo")
SPEC = os.path.join(VERIF, "spec")
HARNESS = os.path.join(VERIF, "harness")
OUT = os.path.join(VERIF, "out")
# seeded-change runs (selftest/mutant.py) write their evidence elsewhere: /verif/evidence only ever describes /repo as it is
EVID = os.environ.get("VERIF_EVIDENCE_DIR") or os.path.join(VERIF, "evidence")
BIN = os.path.join(HARNESS, "target", "release", "rsverif")
JAVA_OPTS = "-Xss1g -Xmx6g -XX:+UseParallelGC -XX:ParallelGCThreads=4"     # multi-worker bounded models
JAVA_OPTS_1 = "-Xss1g -Xmx4g -XX:+UseSerialGC"                              # single-worker trace validators (measured: 8x faster than the default collector here)


class ToolError(Exception):
    pass


class Violation(Exception):
    def __init__(self, what, replay):
        super().__init__(what)
        self.what = what
        self.replay = replay


def log(*a):
    print(*a, flush=True)


def sh(cmd, cwd=None, env=None, timeout=None, check=False):
    e = dict(os.environ)
    if env:
        e.update(env)
    t0 = time.time()
    try:
        p = subprocess.run(cmd, cwd=cwd, env=e, timeout=timeout, stdout=subprocess.PIPE,
                           stderr=subprocess.STDOUT, text=True, errors="replace")
    except subprocess.TimeoutExpired as ex:
        out = ex.stdout or ""
        if isinstance(out, bytes):
            out = out.decode(errors="replace")
        return 124, out, time.time() - t0
    if check and p.returncode != 0:
        raise ToolError("command failed (%d): %s\n%s" % (p.returncode, " ".join(cmd), p.stdout[-4000:]))
    return p.returncode, p.stdout, time.time() - t0


# ----------------------------------------------------------------------
# harness

_built = False


def build_harness(profile="release"):
    """Builds the harness against REPO's current working tree, hooks on, offline."""
    global _built
    if _built and profile == "release":
        return
    os.makedirs(OUT, exist_ok=True)
    tin = open(os.path.join(HARNESS, "Cargo.toml.in")).read().replace("@REPO@", REPO)
    tpath = os.path.join(HARNESS, "Cargo.toml")
    if not os.path.exists(tpath) or open(tpath).read() != tin:
        open(tpath, "w").write(tin)
    rp = os.path.join(HARNESS, "repo_path.txt")
    if not os.path.exists(rp) or open(rp).read().strip() != REPO:
        open(rp, "w").write(REPO + "\n")
    lock = os.path.join(HARNESS, "Cargo.lock")
    if not os.path.exists(lock):
        shutil.copy(os.path.join(REPO, "Cargo.lock"), lock)
    env = {"CARGO_NET_OFFLINE": "true", "RUSTFLAGS": os.environ.get("RUSTFLAGS", "") + " -Awarnings"}
    cmd = ["cargo", "build", "--offline", "--release"] if profile == "release" else \
          ["cargo", "build", "--offline", "--profile", profile]
    rc, out, dt = sh(cmd, cwd=HARNESS, env=env, timeout=1800)
    if rc != 0:
        raise ToolError("harness build failed (the repository must compile with --features verif-hooks):\n" + out[-6000:])
    if profile == "release":
        _built = True
    log("[build] harness (%s) %.1fs" % (profile, dt))


def harness(args, timeout=3600, binpath=None, env=None):
    """Runs the harness; returns (rc, parsed-last-json-line-or-None, raw output)."""
    # worker threads of the harness get the stack a main thread has (a library that keeps more scratch on the stack must
    # not crash in the harness only)
    env = dict(env or {})
    env.setdefault("RUST_MIN_STACK", str(64 << 20))
    rc, out, dt = sh([binpath or BIN] + [str(a) for a in args], cwd=VERIF, timeout=timeout, env=env)
    info = None
    for line in reversed(out.strip().splitlines()):
        line = line.strip()
        if line.startswith("{") and line.endswith("}"):
            try:
                info = json.loads(line)
                break
            except Exception:
                pass
    if rc == 124:
        raise ToolError("harness timed out: " + " ".join(map(str, args)))
    if rc in (-4, -6, -7, -8, -11, 132, 134, 135, 136, 139):
        # killed by a signal (SIGSEGV, SIGILL, SIGBUS, SIGFPE, SIGABRT): the harness is safe Rust and catches panics, so
        # the crash happened inside the library (undefined behaviour in an unsafe block, an abort): that is data, not a
        # tool failure
        sig = -rc if rc < 0 else rc - 128
        text = "command: %s %s\nkilled by signal %d\nlast output:\n%s\n" % (binpath or BIN, " ".join(map(str, args)), sig, out[-3000:])
        raise Violation("the library crashed the process (signal %d) while the harness ran: %s" % (sig, " ".join(map(str, args))[:300]), text)
    if rc not in (0, 1):
        raise ToolError("harness failed rc=%d: %s\n%s" % (rc, " ".join(map(str, args)), out[-3000:]))
    return rc, info, out


# ----------------------------------------------------------------------
# TLC

TLC_JAR = "/opt/veriftools/tla/tla2tools.jar"
CM_JAR = "/opt/veriftools/tla/CommunityModules-deps.jar"


def tlc_cmd(module, cfg, workers, metadir, extra=()):
    # TLC's scratch directories (java.io.tmpdir) live inside the metadir and go away with it - nothing is left in /tmp
    os.makedirs(metadir, exist_ok=True)
    return ["java", "-Djava.io.tmpdir=" + os.path.abspath(metadir), "-cp", TLC_JAR + ":" + CM_JAR, "tlc2.TLC", "-workers", str(workers), "-metadir", metadir,
            "-cleanup", "-noGenerateSpecTE", "-config", cfg] + list(extra) + [module]


RE_STATES = re.compile(r"(\d+) states generated, (\d+) distinct states found")


def parse_tlc(out):
    res = {"ok": False, "generated": 0, "distinct": 0, "violated": None, "error": None, "state": None}
    m = None
    for m in RE_STATES.finditer(out):
        pass
    if m:
        res["generated"] = int(m.group(1))
        res["distinct"] = int(m.group(2))
    if "Model checking completed. No error has been found." in out:
        res["ok"] = True
    mv = re.search(r"Invariant (\S+) is violated", out)
    if mv:
        res["violated"] = mv.group(1)
    if "Deadlock reached" in out:
        res["violated"] = "Deadlock"
    if re.search(r"Temporal properties were violated|Action property .* is violated", out):
        res["violated"] = res["violated"] or "TemporalProperty"
    if "The postcondition" in out or "Postcondition" in out and "violated" in out:
        if re.search(r"[Pp]ostcondition.*(false|violated)", out):
            res["violated"] = res["violated"] or "Postcondition"
    me = re.search(r"Error: (.*)", out)
    if me and not res["ok"] and not res["violated"]:
        res["error"] = me.group(1)
    # last printed state (for star-shaped trace specs: the rejected line)
    ml = None
    for ml in re.finditer(r"/\\ l = (\d+)", out):
        pass
    if ml:
        res["state"] = int(ml.group(1))
    return res


def tlc_run(module, cfg, workers=4, timeout=1800, env=None, extra=(), tag=None):
    """Model-checks spec/<module>.tla with spec/<cfg>. Returns parse_tlc dict plus 'out', 'wall'."""
    tag = tag or (module + "_" + os.path.splitext(os.path.basename(cfg))[0])
    metadir = os.path.join(OUT, "tlc", tag)
    shutil.rmtree(metadir, ignore_errors=True)
    os.makedirs(metadir, exist_ok=True)
    e = {"JAVA_TOOL_OPTIONS": JAVA_OPTS_1 if workers == 1 else JAVA_OPTS}
    if env:
        e.update(env)
    rc, out, dt = sh(tlc_cmd(module + ".tla", cfg, workers, metadir, extra), cwd=SPEC, env=e, timeout=timeout)
    shutil.rmtree(metadir, ignore_errors=True)
    res = parse_tlc(out)
    res["out"] = out
    res["wall"] = dt
    res["rc"] = rc
    if rc == 124:
        raise ToolError("TLC timed out after %ds on %s/%s" % (timeout, module, cfg))
    if not res["ok"] and not res["violated"]:
        raise ToolError("TLC failed on %s/%s: %s\n%s" % (module, cfg, res["error"], out[-3000:]))
    return res


def tlc_model(module, cfg, workers=4, timeout=1800, extra=()):
    """Bounded model check that must pass on its own (a failure is a defect of the model: tool error),
    unless the caller handles res['violated']."""
    res = tlc_run(module, cfg, workers=workers, timeout=timeout, extra=extra)
    log("[tlc] %s/%s: %d states, %d distinct, %.1fs%s" % (module, cfg, res["generated"], res["distinct"], res["wall"],
                                                        "" if res["ok"] else "  VIOLATED " + str(res["violated"])))
    return res


def split_trace(path, parts):
    """Splits a trace of independent events over `parts` files, keeping a map back to original line
    numbers. Consecutive lines carrying the same group id "g" (events that refer to each other by
    relative line offsets) stay together."""
    lines = open(path).read().splitlines()
    lines = [x for x in lines if x.strip()]
    groups, cur, curg = [], [], None
    rg = re.compile(r'"g":(-?\d+)')
    for i, ln in enumerate(lines):
        m = rg.search(ln[:400]) or rg.search(ln[-200:])
        g = m.group(1) if m else None
        if g is not None and g == curg:
            cur.append(i)
        else:
            if cur:
                groups.append(cur)
            cur, curg = [i], g
    if cur:
        groups.append(cur)
    parts = max(1, min(parts, len(groups)))
    # greedy balance by bytes
    bins = [[] for _ in range(parts)]
    load = [0] * parts
    for grp in sorted(groups, key=lambda g: -sum(len(lines[i]) for i in g)):
        b = load.index(min(load))
        bins[b].append(grp)
        load[b] += sum(len(lines[i]) for i in grp) + 2000 * len(grp)
    files, maps = [], []
    for p, b in enumerate(bins):
        idx = [i for grp in sorted(b) for i in grp]
        fp = "%s.part%d" % (path, p)
        with open(fp, "w") as f:
            for i in idx:
                f.write(lines[i] + "\n")
        files.append(fp)
        maps.append(idx)
    return lines, files, maps


def tlc_trace_star(module, cfg, trace, parts=8, timeout=1800, workers=1):
    """Validates a trace of independent events (star-shaped trace spec): splits it over several TLC
    processes. Returns dict(events, rejected=[(line_no, event_text)], states, transitions, wall)."""
    t0 = time.time()
    lines, files, maps = split_trace(trace, parts)

    def one(i):
        return tlc_run(module, cfg, workers=workers, timeout=timeout, env={"TRACE": files[i]},
                       tag="%s_%s_p%d" % (module, os.path.basename(trace), i))

    with ThreadPoolExecutor(max_workers=len(files)) as ex:
        results = list(ex.map(one, range(len(files))))
    rejected, states, trans = [], 0, 0
    for i, res in enumerate(results):
        states += res["distinct"]
        trans += res["generated"]
        if not res["ok"]:
            st = res["state"]
            if res["violated"] and st is not None and 1 <= st <= len(maps[i]):
                ln = maps[i][st - 1]
                rejected.append((ln + 1, lines[ln]))
            elif res["violated"]:
                raise ToolError("trace validation failed without naming an event (%s): %s" % (res["violated"], res["out"][-2000:]))
    for f in files:
        try:
            os.remove(f)
        except OSError:
            pass
    rejected.sort()
    return {"events": len(lines), "rejected": rejected, "states": states, "transitions": trans,
            "wall": time.time() - t0, "lines": lines}


def tlc_trace_seq(module, cfg, trace, timeout=1800, extra_env=None):
    """Validates a sequential trace (stateful trace spec, acceptance by postcondition on the diameter).
    Returns dict(events, accepted, matched, states, transitions, wall, out)."""
    env = {"TRACE": trace, "JAVA_TOOL_OPTIONS": JAVA_OPTS_1 + " -Dtlc2.tool.queue.IStateQueue=StateDeque"}
    if extra_env:
        env.update(extra_env)
    n = sum(1 for x in open(trace) if x.strip())
    metadir = os.path.join(OUT, "tlc", module + "_" + os.path.basename(trace))
    shutil.rmtree(metadir, ignore_errors=True)
    os.makedirs(metadir, exist_ok=True)
    rc, out, dt = sh(tlc_cmd(module + ".tla", cfg, 1, metadir), cwd=SPEC, env=env, timeout=timeout)
    shutil.rmtree(metadir, ignore_errors=True)
    if rc == 124:
        raise ToolError("TLC timed out validating " + trace)
    res = parse_tlc(out)
    matched = None
    mm = re.search(r"TRACE-MATCHED\", (\d+)", out)
    if mm:
        matched = int(mm.group(1))
    accepted = res["ok"] and not res["violated"] and "TRACE-REJECTED" not in out
    if not accepted and matched is None and not res["violated"]:
        raise ToolError("TLC failed on %s: %s\n%s" % (module, res["error"], out[-3000:]))
    return {"events": n, "accepted": accepted, "matched": matched, "states": res["distinct"],
            "transitions": res["generated"], "wall": dt, "out": out, "violated": res["violated"]}


def tlc_trace_seq_parts(module, cfg, trace, parts=4, boundary='"ev":"new"', timeout=1800):
    """Sequential validation of a trace made of independent histories (each starting with a `boundary` event):
    the file is cut at history boundaries into `parts` pieces validated by parallel single-worker TLC processes.
    Returns dict(events, accepted, states, transitions, wall, rejected=[(history_text, line_in_history)])."""
    import concurrent.futures
    lines = [x for x in open(trace).read().splitlines() if x.strip()]
    starts = [i for i, x in enumerate(lines) if boundary in x]
    if not starts or starts[0] != 0:
        raise ToolError("trace %s does not start with a history boundary" % trace)
    parts = max(1, min(parts, len(starts)))
    per = (len(starts) + parts - 1) // parts
    pieces = []
    for pi in range(parts):
        hs = starts[pi * per:(pi + 1) * per]
        if not hs:
            continue
        end = starts[(pi + 1) * per] if (pi + 1) * per < len(starts) else len(lines)
        pp = "%s.part%d" % (trace, pi)
        with open(pp, "w") as f:
            f.write("\n".join(lines[hs[0]:end]) + "\n")
        pieces.append((pp, hs[0], end))
    t0 = time.time()
    with concurrent.futures.ThreadPoolExecutor(max_workers=len(pieces)) as ex:
        results = list(ex.map(lambda pc: tlc_trace_seq(module, cfg, pc[0], timeout=timeout), pieces))
    out = {"events": len(lines), "accepted": True, "states": 0, "transitions": 0, "wall": time.time() - t0, "rejected": []}
    for (pp, a, b), r in zip(pieces, results):
        out["states"] += r["states"]
        out["transitions"] += r["transitions"]
        if not r["accepted"]:
            out["accepted"] = False
            if r["violated"] and r["matched"] is None:
                raise ToolError("%s: invariant %s violated while validating %s\n%s" % (module, r["violated"], pp, r["out"][-2000:]))
            at = a + (r["matched"] or 0)          # 0-based index of the first unmatched event
            h0 = max(i for i in starts if i <= at)
            h1 = min([i for i in starts if i > at] + [len(lines)])
            out["rejected"].append(("\n".join(lines[h0:h1]) + "\n", at - h0 + 1, lines[at]))
        os.remove(pp)
    return out


# ----------------------------------------------------------------------
# known findings, evidence, verdicts

def known_findings():
    p = os.path.join(VERIF, "known_findings.json")
    if not os.path.exists(p):
        return []
    return json.load(open(p))


def match_finding(prop, event):
    """Returns the open finding matching this violating event (dict), else None."""
    for f in known_findings():
        if f.get("status") != "open" or f.get("property") != prop:
            continue
        m = f.get("match", {})
        if all(str(event.get(k)) == str(v) for k, v in m.items()):
            return f
    return None


def repo_state():
    """Which tree the run was made against: path, HEAD, and whether the working tree had uncommitted changes."""
    rc1, head, _ = sh(["git", "-C", REPO, "rev-parse", "HEAD"])
    rc2, st, _ = sh(["git", "-C", REPO, "status", "--porcelain", "--untracked-files=no"])
    return {"path": REPO, "head": head.strip() if rc1 == 0 else "?", "uncommitted_changes": bool(st.strip()) if rc2 == 0 else None}


def write_evidence(prop, tier, seed, coverage, assumptions, wall, violations):
    os.makedirs(EVID, exist_ok=True)
    coverage = dict(coverage)
    coverage["repo"] = repo_state()
    ev = {"property_id": prop, "tier": tier, "seed": int(seed), "level": "model_checking",
          "coverage": coverage, "assumptions": assumptions, "wall_s": round(wall, 2),
          "violations": int(violations)}
    with open(os.path.join(EVID, prop + ".json"), "w") as f:
        json.dump(ev, f, indent=1, sort_keys=True)
        f.write("\n")


def save_replay(prop, name, content):
    d = os.path.join(OUT, prop)
    os.makedirs(d, exist_ok=True)
    p = os.path.join(d, name)
    with open(p, "w") as f:
        f.write(content if isinstance(content, str) else json.dumps(content, indent=1))
        if isinstance(content, str) and not content.endswith("\n"):
            f.write("\n")
    return p


def short(s, n=400):
    s = s if isinstance(s, str) else json.dumps(s)
    return s if len(s) <= n else s[:n] + "...(%d chars)" % len(s)
