#!/usr/bin/env python3
"""Generates /verif/MANIFEST.json from the table below (one source of truth)."""
import json, os, subprocess
V = os.path.dirname(os.path.dirname(os.path.abspath(__file__)))

def repo_hook_commits():
    try:
        out = subprocess.run(["git", "-C", "/repo", "log", "--format=%H %s"], capture_output=True, text=True).stdout
        return [l.split()[0] for l in out.splitlines() if "verif-hooks" in l][::-1]
    except Exception:
        return []

CLAIMED = {
 "C02": dict(
   technique="TLA+ trace validation: TLC evaluates the closed-form Cauchy code over GF(2^16) on recorded encode rounds",
   text="Recorded encode rounds of every engine / codec kind / the one-shot function / the ancestor crate are validated event by event "
        "by TLC against Code.tla: the recovery symbols must equal the closed-form matrix product computed inside the specification from the "
        "field polynomial and Cantor basis alone (no FFT, none of the crate's tables). Exhaustive over (k,r)<=16x16 per run, all 31 envelope "
        "corners in the thorough tier; data, slots and large configurations are sampled. The definitions themselves are model-checked on small fields.",
   note="Trusted: TLC, CommunityModules overrides, harness logging. Large configurations are checked on sampled recovery indexes / unit-vector columns (sound by linearity, C13).",
   ref="DESIGN.md section 5, C02"),
}
PENDING = {}
for i in range(1, 18):
    pid = "C%02d" % i
    if pid not in CLAIMED:
        PENDING[pid] = "check not built yet in this snapshot of /verif (planned: see DESIGN.md section 5); not claimed until its pipeline runs"

def main():
    checks = []
    for pid, c in sorted(CLAIMED.items()):
        checks.append({
            "property_id": pid,
            "quick_cmd": "bin/check %s --tier quick" % pid,
            "thorough_cmd": "bin/check %s --tier thorough" % pid,
            "evidence_file": "/verif/evidence/%s.json" % pid,
            "replay_cmd_template": "bin/check %s --replay {path}" % pid,
            "engine": "tlc+rsverif",
            "level_claimed": {"category": "model_checking", "text": c["text"], "design_ref": c["ref"]},
            "level_note": c["note"],
            "technique": c["technique"],
        })
    m = {
        "version": 1,
        "setup_cmd": "bin/setup",
        "hooks": {
            "guard": "verif-hooks",
            "enable": "cargo feature `verif-hooks` of reed-solomon-simd, switched on by the harness's path dependency (harness/Cargo.toml.in)",
            "baseline_off_cmd": "cd /repo && cargo test --workspace --no-fail-fast --offline",
            "source_commits": repo_hook_commits(),
            "add_only": True,
        },
        "engines": [
            {"name": "tlc", "path": "spec/", "serves_properties": sorted(CLAIMED), "kind_free_text": "TLA+ specifications: bounded models (MC_*), trace specifications (Trace_*), checked with TLC"},
            {"name": "rsverif", "path": "harness/", "serves_properties": sorted(CLAIMED), "kind_free_text": "Rust conformance harness: replays TLC-generated graphs/cases into the real code, records runs of the real code as ndjson traces"},
            {"name": "check", "path": "run/", "serves_properties": sorted(CLAIMED), "kind_free_text": "orchestrator: builds the harness from /repo's working tree with hooks on, runs TLC and the harness, writes evidence"},
        ],
        "checks": checks,
        "notes": "All checks share one harness build (cargo, offline) against /repo's current working tree. Exit 2 = tool error/timeout.",
        "not_applicable": [{"property_id": p, "reason": r} for p, r in sorted(PENDING.items())],
    }
    with open(os.path.join(V, "MANIFEST.json"), "w") as f:
        json.dump(m, f, indent=1)
        f.write("\n")

if __name__ == "__main__":
    main()
