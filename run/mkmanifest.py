#!/usr/bin/env python3
"""Generates /verif/MANIFEST.json from the table below (one source of truth)."""
import json, os, subprocess
V = os.path.dirname(os.path.dirname(os.path.abspath(__file__)))

def repo_hook_commits():
    try:
        out = subprocess.run(["git", "-C", "/repo", "log", "--format=%H %s"], capture_output=True, text=True).stdout
        return [l.split()[0] for l in out.splitlines() if "verif-hooks" in l][::-1]
    except Exception:
        return []

GRAPH_NOTE = ("Trusted: TLC, the harness executor, hook H2's projection being everything later calls depend on (attacked by poison hook H1 and random walks). "
              "Bounded by the explicit palette of configurations / argument classes in MC_Codec.tla; outside it, sampled by trace-validated walks.")
CLAIMED = {
 "C02": dict(
   technique="TLA+ trace validation: TLC evaluates the closed-form Cauchy code over GF(2^16) on recorded encode rounds",
   text="Recorded encode rounds of every engine / codec kind / the one-shot function / the ancestor crate are validated event by event "
        "by TLC against Code.tla: the recovery symbols must equal the closed-form matrix product computed inside the specification from the "
        "field polynomial and Cantor basis alone (no FFT, none of the crate's tables). Exhaustive over (k,r)<=16x16 per run, all 31 envelope "
        "corners in the thorough tier; data, slots and large configurations are sampled. The definitions themselves are model-checked on small fields.",
   note="Trusted: TLC, CommunityModules overrides, harness logging. Large configurations are checked on sampled recovery indexes / unit-vector columns (sound by linearity, C13).",
   ref="DESIGN.md section 5, C02"),
 "C05": dict(
   technique="TLC state graph of Codec.tla replayed into the code as random walks with poisoned memory + trace validation of the same walks",
   text="TLC explores the reachable graph of the object protocol (Codec.tla) over a palette whose configurations shrink, grow, change block count, cross "
        "high/low rate and move the working space between codec kinds. Seeded walks over that graph are executed on every engine with the working "
        "memory overwritten by a never-repeating stream at every resize (so every possible stale content is exercised); after every step the real "
        "object's projection must equal the model state and every result must equal a fresh dedicated-rate reference codec. The walks are also "
        "recorded and validated event by event by Trace_Codec.tla. DecWork.tla (the decoder's bitmap / base positions / counters as implemented) is model-checked to "
        "refine Codec.tla's index sets over every history of the small configurations: no bit survives a reset or a drop.",
   note=GRAPH_NOTE, ref="DESIGN.md section 5, C05"),
 "C06": dict(
   technique="exhaustive edge replay of TLC's Codec.tla state graph (every failing call from every reachable state) + OneShot cases",
   text="For every call the specification computes the set of violated documented preconditions (CodecRules.tla); TLC enumerates every call of the "
        "argument palette (usize extremes, simultaneous violations) from every reachable object state and prints each edge with its allowed returns. "
        "The harness performs one implementation run per edge (overflow checks on): Ok iff no precondition is violated, otherwise an Err whose variant "
        "and fields equal one violated precondition; a panic is never allowed. Exhaustive over the palette graph; the one-shot functions are covered "
        "by MC_OneShot cases.",
   note=GRAPH_NOTE, ref="DESIGN.md section 5, C06"),
 "C07": dict(
   technique="edge replay of TLC's Codec.tla graph through inserted failing calls; FailureIsNoop action property in the model",
   text="In Codec.tla a failing call leaves every state variable unchanged (checked by TLC as an action property). Every edge of the graph is replayed "
        "through one (thorough: also two) failing calls taken from the source state's failing edges; the projection after each failing call must equal "
        "the source state and the continuation (up to a result whose bytes are compared with a reference codec) must behave as the model says. "
        "DecWork.tla models the decoder's bitmap, base positions and counters as implemented and TLC checks that a failing add / decode changes none of them (StepOK).",
   note=GRAPH_NOTE, ref="DESIGN.md section 5, C07"),
 "C10": dict(
   technique="TLC enumerates all short argument lists of OneShot.tla (fold of the streaming rules); each case replayed on the real functions",
   text="OneShot.tla defines encode()/decode() as the fold of the streaming API's rule sets over the argument lists and, separately, the set of all "
        "truthful errors; TLC checks the fold lies inside the contract for every argument list with at most 3 (thorough 4) shards over the palette and "
        "emits every case. The harness runs each case on the real one-shot function and on ReedSolomonEncoder/Decoder side by side: return value in "
        "the allowed set, Ok iff the contract is empty, identical results, restored indexes as specified.",
   note="Trusted: TLC, harness. Bounded by the palette (counts {0,1,2,3,65536,MAX}, indexes {0,1,k-1,k,MAX}, lengths {64,66,1,0}) and MaxShards.",
   ref="DESIGN.md section 5, C10"),
 "C11": dict(
   technique="exhaustive edge replay of the decoder graph of Codec.tla (state = index sets, so every arrival order is a path to one node)",
   text="The decoder state of Codec.tla is a pair of index sets, so all arrival orders and all surplus sets reach the same node. Every add/decode/"
        "query/iter edge of the graph is replayed on every engine, with the projection and the restored bytes compared at the target node: by "
        "induction over path length every order and every superset (within the palette, k+r<=5, thorough 6) yields the same restored originals, "
        "given originals are never reported, and nothing is restored when all originals are given.",
   note=GRAPH_NOTE, ref="DESIGN.md section 5, C11"),
 "C12": dict(
   technique="edge replay of query/iter/drop transitions on every live state of TLC's Codec.tla graph + multi-round walks",
   text="RecoveryView/RestoredView in Codec.tla fix which indexes a result exposes. On every state with a live result the harness replays "
        "recovery(i)/restored_original(i) over the index palette (0..3, 65535, 65536, MAX-1, MAX), iteration to exhaustion plus three more polls, "
        "and drop followed by a new round, comparing presence, length, order and bytes with the model and a reference codec; walks chain many rounds.",
   note=GRAPH_NOTE, ref="DESIGN.md section 5, C12"),
 "C17": dict(
   technique="trace validation against Codec.tla's history variable `held` with a counting allocator armed around every call",
   text="Codec.tla carries `held`, the largest working-space need since the work space was created, and marks each call may_alloc iff the new "
        "configuration needs more. Walks over the graph with huge shards (palette scaled x8192: 16 KiB .. 1 MiB; allocation verdicts only on shards >= 400 000 bytes) are executed with a counting global allocator and buffer "
        "address/capacity snapshots; Trace_Codec.tla rejects any call that allocates at least one shard's worth of memory or moves the buffer "
        "although the specification says the held space suffices (rounds, equal/shrinking resets, re-housing across kinds).",
   note="Trusted: TLC, allocator instrumentation. Shard-proportional is decided with shards >= 4 KiB: anything at least one shard long.",
   ref="DESIGN.md section 5, C17"),
}

CODE_NOTE = "Trusted: TLC, CommunityModules overrides, harness logging; digests are 64-bit FNV-1a where the specification does not compute on the bytes."
CLAIMED.update({
 "C01": dict(
   technique="TLA+ trace validation of recorded decode rounds (Trace_Code.tla) + bounded design models",
   text="Decode rounds of the real code on sufficient shard sets are recorded (every (rate,k,r) with k+r<=7, thorough 10, with maximum-loss, scattered, "
        "burst and surplus patterns; random mid-size configurations; all 31 envelope corners and chunk edges at maximum loss; all engines, kinds and the "
        "one-shot function) and validated by TLC: decode must succeed and return exactly the missing originals (index set computed by the specification), "
        "byte for byte, in ascending order, with the configured length. The given recovery shards come from a reference encoder pinned to the closed form by C02.",
   note=CODE_NOTE + " Subsets are exhaustive only in the bounded design models; at 16 bits they are seeded samples.", ref="DESIGN.md section 5, C01"),
 "C04": dict(
   technique="TLA+ trace validation: every symbol slot of rounds at every even size evaluated through Layout.tla and the closed form",
   text="For every even shard size 2..132 (thorough 2..258, 510, 1022, 4098) an encode round is recorded and TLC evaluates EVERY 16-bit slot of every "
        "recovery shard with the closed-form code through the documented byte placement (Layout.tla) - which is exactly 'the same symbols as coding every "
        "slot on its own' - checks exact output lengths, and validates a maximum-loss decode at the same size. Poisoned working memory exposes kernels that "
        "read the unused part of the final block.",
   note=CODE_NOTE, ref="DESIGN.md section 5, C04"),
 "C08": dict(
   technique="TLC proves the envelope theorems on Bits=2..8; whole rows of every supports() predicate validated as run-lengths by Trace_Envelope",
   text="Envelope.tla states the README table literally; TLC checks over the whole square for Bits=2..8 that it equals the code's formulation, that the "
        "dedicated rates are its two halves, and that rows are intervals with known breakpoints. At 16 bits every supports() predicate (12 entry points) is "
        "evaluated over whole rows (every 16th original_count plus all corner neighbourhoods; thorough: all 4.3e9 pairs per predicate) and each row's "
        "run-lengths must equal the specification's. validate/new agree with supports at all corners +-1 and usize extremes; reset/rehouse edges of the "
        "Codec graph are replayed; corner configurations really encode and decode.",
   note="Trusted: TLC, harness. Constructors are only exercised with shard sizes <= 64 (allocation failures are outside the property).", ref="DESIGN.md section 5, C08"),
 "C09": dict(
   technique="rule rows validated by Trace_Envelope; rate in snapshots on New/Reset/Rehouse graph edges; default-vs-dedicated rounds validated by Trace_Code",
   text="The private selection rule is exposed by hook H5 and validated over whole rows against Envelope!UseHigh; the inner rate of default-rate codecs "
        "is compared with the model after every New/Reset/Rehouse edge on every engine; default-rate codecs, ReedSolomonEncoder and the one-shot function "
        "are recorded next to the dedicated codec of the rule's rate on the same data (all (k,r)<=12x12, thorough 24x24, power-of-two boundaries) and TLC "
        "requires identical bytes, the rule's rate, and the closed form; dedicated-encoded shards are decoded by the default family.",
   note=CODE_NOTE, ref="DESIGN.md section 5, C09"),
 "C13": dict(
   technique="TLA+ trace validation of linear relations between recorded encode rounds, with GF!Mul evaluated by TLC",
   text="Triples (A, B, A xor B), pairs (A, c*A) and zero data are encoded by the real code; Trace_Code.tla verifies the input relation itself and the "
        "output relation (bytewise xor; symbolwise product with its own GF(2^16) arithmetic) and checks every round against the closed form. All rates, "
        "engines, sizes incl. non-multiples of 64, and envelope-boundary configurations.",
   note=CODE_NOTE, ref="DESIGN.md section 5, C13"),
})

CLAIMED.update({
 "C03": dict(
   technique="TLA+ trace validation of cross-engine cases: Trace_Prim (per-primitive, determined region from the contract) and Trace_Code (alleq rounds)",
   text="Every public primitive is executed by every engine usable here (Naive, NoSimd, Ssse3, Avx2, DefaultEngine, and engine_neon.rs compiled against emulated "
        "intrinsics) from identical input over a parameter grid; LCH.tla's contracts fix which outputs are determined, and Trace_Prim.tla requires bit-identical digests "
        "there and untouched shards outside the range (small transforms also equal the polynomial-evaluation contract). The same encode/decode rounds run on every engine "
        "and Trace_Code.tla requires identical recovery bytes, the closed form, and the originals back.",
   note="Trusted: TLC, harness, the documented Arm semantics of seven Neon intrinsics. The decision is differential; the specification supplies domain and comparison region.",
   ref="DESIGN.md section 5, C03"),
 "C14": dict(
   technique="Dispatch.tla model-checked for both architectures; trace validation of DefaultEngine under all feature masks (hook H3 counters)",
   text="Dispatch.tla models the two detection sites (engine construction; eval_poly at each call) and TLC checks, for every subset of reported features and every call "
        "sequence, that only reported instruction sets run and always the best one. The real code runs under all 4 subsets of {AVX2, SSSE3} via a masked "
        "is_x86_feature_detected!; every #[target_feature] entry point is counted per call; Trace_Dispatch.tla validates each call against the model and requires "
        "identical result digests under every mask.",
   note="Trusted: TLC, hook H3 (mask can only remove features). AArch64 detection is covered by the model only.", ref="DESIGN.md section 5, C14"),
 "C15": dict(
   technique="TLA+ trace validation: TLC evaluates GF(2^16)/LCH contracts on all table entries and recorded primitive calls",
   text="GF.tla builds the field from the polynomial and Cantor basis; LCH.tla states what the skew table, Walsh table, multiplication tables, fft/ifft and eval_poly mean. "
        "TLC validates every entry of Exp, Log, Skew, LogWalsh, sampled multipliers of Mul16/Mul128, mul on probe blocks (all nibble patterns), fft/ifft for sizes up to 32 "
        "with every truncated size and boundary skew offsets against the polynomial-evaluation contract, and eval_poly against the locator definition for several truncated "
        "sizes, for every engine (also on working spaces at odd addresses). The complete tables as built by fresh processes restricted to 1, 3, 5, 6, 7, 12 CPUs must equal "
        "the validated ones. Thorough adds all 2^32 (symbol, log_m) pairs per engine against the certified tables. Small-field models check the definitions. Shards.tla "
        "(working-space views, xor helpers) is model-checked and trace-validated in the same run; its rejections are reported as observations, not as violations of C15.",
   note="Trusted: TLC, CommunityModules overrides. Large transforms are covered indirectly (C02 closed form, C03 cross-engine).", ref="DESIGN.md section 5 (C15), 3.7b, 12.8"),
 "C16": dict(
   technique="TableInit.tla model-checked (all interleavings, deadlock, liveness) over dependencies observed from the code; trace validation of racing processes",
   text="Hook H4 records begin/end of each table initialiser. Fresh single-threaded processes yield the actual dependency relation and per-engine programs of the current "
        "tree; TLC explores all interleavings of 3 threads over them (no re-entrant initialisation, no deadlock, termination under fairness). Fresh multi-threaded "
        "processes (2..8 threads, barrier, all engines, objects handed over mid-round) are validated by Trace_TableInit.tla: proper nesting, no re-entrancy, nesting "
        "within observed dependencies, every result equal to sequential execution, normal exit (watchdog for hangs). Gated schedules (hook H6): every reachable state of "
        "the model with a running initialiser is reached on the real code by holding threads at the begin / end of initialisers and releasing them at one instant; "
        "the process must terminate with sequential results (DESIGN.md 12.7).",
   note="Trusted: TLC, std::sync::LazyLock semantics as modelled. Race / storm processes sample real schedules (60 quick / 2000 thorough); gated schedules (hook H6) drive fresh processes into every reachable model state with a running initialiser (17 260 quick / 75 394 thorough processes); between hold points the OS schedules.",
   ref="DESIGN.md section 5 (C16) and 12.7"),
})
PENDING = {}
for i in range(1, 18):
    pid = "C%02d" % i
    if pid not in CLAIMED:
        PENDING[pid] = "check not built yet in this snapshot of /verif (planned: see DESIGN.md section 5); not claimed until its pipeline runs"

def main():
    checks = []
    for pid, c in sorted(CLAIMED.items()):
        checks.append({
            "property_id": pid,
            "quick_cmd": "bin/check %s --tier quick" % pid,
            "thorough_cmd": "bin/check %s --tier thorough" % pid,
            "evidence_file": "/verif/evidence/%s.json" % pid,
            "replay_cmd_template": "bin/check %s --replay {path}" % pid,
            "engine": "tlc+rsverif",
            "level_claimed": {"category": "model_checking", "text": c["text"], "design_ref": c["ref"]},
            "level_note": c["note"],
            "technique": c["technique"],
        })
    m = {
        "version": 1,
        "setup_cmd": "bin/setup",
        "hooks": {
            "guard": "verif-hooks",
            "enable": "cargo feature `verif-hooks` of reed-solomon-simd, switched on by the harness's path dependency (harness/Cargo.toml.in)",
            "baseline_off_cmd": "cd /repo && cargo test --workspace --no-fail-fast --offline",
            "source_commits": repo_hook_commits(),
            "add_only": True,
        },
        "engines": [
            {"name": "tlc", "path": "spec/", "serves_properties": sorted(CLAIMED), "kind_free_text": "TLA+ specifications: bounded models (MC_*), trace specifications (Trace_*), checked with TLC"},
            {"name": "rsverif", "path": "harness/", "serves_properties": sorted(CLAIMED), "kind_free_text": "Rust conformance harness: replays TLC-generated graphs/cases into the real code, records runs of the real code as ndjson traces"},
            {"name": "check", "path": "run/", "serves_properties": sorted(CLAIMED), "kind_free_text": "orchestrator: builds the harness from /repo's working tree with hooks on, runs TLC and the harness, writes evidence"},
        ],
        "checks": checks,
        "notes": "All checks share one harness build (cargo, offline) against /repo's current working tree. Exit 2 = tool error/timeout.",
        "not_applicable": [{"property_id": p, "reason": r} for p, r in sorted(PENDING.items())],
    }
    with open(os.path.join(V, "MANIFEST.json"), "w") as f:
        json.dump(m, f, indent=1)
        f.write("\n")

if __name__ == "__main__":
    main()
