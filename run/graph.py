#!/usr/bin/env python3
"""Turns TLC's EDGE lines (MC_Codec with ACTION_CONSTRAINT Emit) into graph.json:
   {"role","nodes":[projection...],"init":id,"edges":[[from,to,step]...]}"""
import json, sys, re


def parse_edges(text):
    for line in text.splitlines():
        if not line.startswith('<<"EDGE", "'):
            continue
        body = line[len('<<"EDGE", '):-2]
        # body is a TLA+ string literal whose content is JSON with \" escapes
        s = json.loads(body)
        yield json.loads(s)


def build(text, role, kind0, cfg0):
    ids, nodes, edges, seen = {}, [], [], set()

    def nid(p):
        key = json.dumps(p, sort_keys=True)
        if key not in ids:
            ids[key] = len(nodes)
            nodes.append(p)
        return ids[key]

    for e in parse_edges(text):
        f, t = nid(e["from"]), nid(e["to"])
        key = (f, t, json.dumps(e["step"], sort_keys=True))
        if key in seen:
            continue
        seen.add(key)
        edges.append([f, t, e["step"]])
    init = None
    for i, n in enumerate(nodes):
        if (n["kind"] == kind0 and [n["k"], n["r"], n["sb"]] == cfg0 and not n["added"] and not n["gotO"]
                and not n["gotR"] and n["res"] == "none"):
            init = i
    if init is None:
        raise SystemExit("initial node not found")
    return {"role": role, "nodes": nodes, "init": init, "edges": edges}


if __name__ == "__main__":
    role, kind0 = sys.argv[1], sys.argv[2]
    g = build(sys.stdin.read(), role, kind0, [2, 1, 64])
    json.dump(g, open(sys.argv[3], "w"))
    print(json.dumps({"nodes": len(g["nodes"]), "edges": len(g["edges"])}))
