#!/usr/bin/env python3
"""bin/check <ID> [--tier quick|thorough] [--seed N] [--replay PATH]

Exit 0: the property held on everything explored (KNOWN-FINDING lines may be printed).
Exit 1: a violation was found; a line `VIOLATION property=<id> replay=<path>` is printed.
Exit 2: tool error or timeout (never reported as a violation).
"""
import argparse, json, os, sys, time, traceback

sys.path.insert(0, os.path.dirname(os.path.abspath(__file__)))
from common import *  # noqa
import props


def main():
    ap = argparse.ArgumentParser()
    ap.add_argument("prop")
    ap.add_argument("--tier", default=os.environ.get("VERIF_TIER", "quick"))
    ap.add_argument("--seed", type=int, default=int(os.environ.get("VERIF_SEED", "1") or 1))
    ap.add_argument("--replay", default=None)
    a = ap.parse_args()
    if a.tier not in ("quick", "thorough"):
        a.tier = "quick"
    prop = a.prop.upper()
    fn = getattr(props, "check_" + prop, None)
    if fn is None:
        print("unknown property", prop)
        return 2
    t0 = time.time()
    ctx = props.Ctx(prop, a.tier, a.seed, a.replay)
    try:
        build_harness()
        fn(ctx)
    except Violation as v:
        # the process running the library was killed by a signal: recorded as a violation of the property being checked
        ctx.violation(v.what, save_replay(prop, "violation-crash.txt", v.replay), {"source": "crash"})
    except ToolError as e:
        print("TOOL-ERROR property=%s: %s" % (prop, e))
        return 2
    except Exception:
        traceback.print_exc()
        print("TOOL-ERROR property=%s: internal error" % prop)
        return 2
    wall = time.time() - t0
    # verdict
    unknown = []
    for v in ctx.violations:
        f = match_finding(prop, v.get("event", {}))
        if f:
            print("KNOWN-FINDING: property=%s %s (%s)" % (prop, f.get("what", ""), f.get("id", "")))
        else:
            unknown.append(v)
    if not a.replay:
        cov = ctx.coverage()
        write_evidence(prop, a.tier, a.seed, cov, ctx.assumptions, wall, len(unknown))
    if unknown:
        for v in unknown[:20]:
            print("VIOLATION property=%s replay=%s" % (prop, v["replay"]))
            print("  what: %s" % short(v["what"], 600))
        return 1
    print("OK property=%s tier=%s seed=%d wall=%.1fs" % (prop, a.tier, a.seed, wall))
    return 0


if __name__ == "__main__":
    sys.exit(main())
