"""One pipeline per property. Every pipeline is:  bounded TLC models  ->  (TLC-generated cases
replayed into the code | runs of the code recorded and validated by TLC)  ->  evidence."""
import json, os, re, time
from common import *  # noqa


class Ctx:
    def __init__(self, prop, tier, seed, replay):
        self.prop, self.tier, self.seed, self.replay = prop, tier, seed, replay
        self.thorough = tier == "thorough"
        self.states = 0
        self.transitions = 0
        self.traces = 0          # traces / replayed behaviours validated against the implementation
        self.evaluations = 0
        self.distinct = 0
        self.samples = []
        self.models = []
        self.extra = {}
        self.violations = []
        self.assumptions = []
        self.rule = ""
        self.exhaustive = False
        self.dir = os.path.join(OUT, prop)
        os.makedirs(self.dir, exist_ok=True)

    def path(self, name):
        return os.path.join(self.dir, name)

    def add_model(self, name, res):
        self.states += res["distinct"]
        self.transitions += res["generated"]
        self.models.append({"model": name, "distinct_states": res["distinct"], "states_generated": res["generated"],
                            "wall_s": round(res["wall"], 1)})

    def violation(self, what, replay, event=None):
        self.violations.append({"what": what, "replay": replay, "event": event or {}})

    def coverage(self):
        cov = {"states": max(self.states, 1), "transitions": max(self.transitions, 1),
               "traces_validated_against_impl": self.traces,
               "samples": self.samples[:6] or ["(none)"],
               "evaluations": self.evaluations, "distinct_nontrivial": self.distinct,
               "rule": self.rule, "exhaustive": self.exhaustive, "models": self.models}
        cov.update(self.extra)
        return cov


def model_must_hold(ctx, module, cfg, workers=4, timeout=1800):
    """A bounded model of the design: a violation here is a defect of the specification itself
    (or of an observed constant fed into it - callers that feed observations handle that)."""
    res = tlc_model(module, cfg, workers=workers, timeout=timeout)
    ctx.add_model(module + "/" + cfg, res)
    if not res["ok"]:
        raise ToolError("bounded model %s/%s violated %s on its own:\n%s" % (module, cfg, res["violated"], res["out"][-3000:]))
    return res


def validate_star(ctx, module, cfg, trace, parts=8, what="event"):
    """Star-shaped trace validation; every rejected event becomes a violation with a replay file."""
    r = tlc_trace_star(module, cfg, trace, parts=parts)
    ctx.states += r["states"]
    ctx.transitions += r["transitions"]
    ctx.traces += r["events"] - len(r["rejected"])
    log("[trace] %s: %d events, %d rejected, %.1fs" % (os.path.basename(trace), r["events"], len(r["rejected"]), r["wall"]))
    for (ln, text) in r["rejected"]:
        p = save_replay(ctx.prop, "violation-line%d.ndjson" % ln, text)
        try:
            ev = json.loads(text)
        except Exception:
            ev = {}
        brief = {k: v for k, v in ev.items() if not isinstance(v, (list, dict))}
        ctx.violation("%s rejected by %s (trace line %d): %s" % (what, module, ln, json.dumps(brief)), p, brief)
    return r


def sample_events(ctx, lines, n=3, maxlen=500):
    step = max(1, len(lines) // n)
    for i in range(0, len(lines), step):
        ctx.samples.append(short(lines[i], maxlen))
        if len(ctx.samples) >= n:
            break


# ======================================================================
# C02 - recovery shards are the closed-form scaled-Cauchy code

def check_C02(ctx):
    ctx.rule = ("encode rounds of the real code (all engines, all codec kinds, the one-shot function and the ancestor crate "
                "reed-solomon-16 0.1.0) recorded with raw bytes; TLC evaluates Code!Encode over GF(2^16) built from the field "
                "polynomial and the Cantor basis only, on the layout-selected slots. distinct = distinct (rate,k,r,sb,engine,kind,data) events")
    ctx.assumptions = ["TLC arithmetic and CommunityModules Java overrides are trusted",
                       "slots per event are sampled by the specification (block edges, whole tail block, ends, one seeded slot); "
                       "recovery indexes are complete for small events and sampled (ends, chunk edges, spread) for large ones",
                       "small-field model MC_Field checks the linear shortcuts (SMLin, hoisted matrix) the 16-bit evaluation uses"]
    if ctx.replay:
        r = validate_star(ctx, "Trace_Code", "Trace_Code.cfg", ctx.replay, parts=1, what="encode round")
        return
    # design level: the definitions on small fields
    for b in ([2, 4] if not ctx.thorough else [2, 3, 4, 5, 6, 8]):
        model_must_hold(ctx, "MC_Field", "MC_Field_%d.cfg" % b)
    trace = ctx.path("trace.ndjson")
    rc, info, out = harness(["code", "--family", "c02", "--out", trace, "--seed", ctx.seed, "--tier", ctx.tier])
    ctx.evaluations = info["events"]
    ctx.extra["harness_stats"] = info.get("stats", {})
    r = validate_star(ctx, "Trace_Code", "Trace_Code.cfg", trace, parts=10 if ctx.thorough else 8, what="encode round")
    ctx.distinct = r["events"]
    sample_events(ctx, r["lines"])
