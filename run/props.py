"""One pipeline per property. Every pipeline is:  bounded TLC models  ->  (TLC-generated cases
replayed into the code | runs of the code recorded and validated by TLC)  ->  evidence."""
import json, os, re, time
from common import *  # noqa


class Ctx:
    def __init__(self, prop, tier, seed, replay):
        self.prop, self.tier, self.seed, self.replay = prop, tier, seed, replay
        self.thorough = tier == "thorough"
        self.states = 0
        self.transitions = 0
        self.traces = 0          # traces / replayed behaviours validated against the implementation
        self.evaluations = 0
        self.distinct = 0
        self.samples = []
        self.models = []
        self.extra = {}
        self.violations = []
        self.assumptions = []
        self.rule = ""
        self.exhaustive = False
        self.dir = os.path.join(OUT, prop)
        os.makedirs(self.dir, exist_ok=True)

    def path(self, name):
        return os.path.join(self.dir, name)

    def add_model(self, name, res):
        self.states += res["distinct"]
        self.transitions += res["generated"]
        self.models.append({"model": name, "distinct_states": res["distinct"], "states_generated": res["generated"],
                            "wall_s": round(res["wall"], 1)})

    def violation(self, what, replay, event=None):
        self.violations.append({"what": what, "replay": replay, "event": event or {}})

    def coverage(self):
        cov = {"states": max(self.states, 1), "transitions": max(self.transitions, 1),
               "traces_validated_against_impl": self.traces,
               "samples": self.samples[:6] or ["(none)"],
               "evaluations": self.evaluations, "distinct_nontrivial": self.distinct,
               "rule": self.rule, "exhaustive": self.exhaustive, "models": self.models}
        cov.update(self.extra)
        return cov


def model_must_hold(ctx, module, cfg, workers=4, timeout=1800):
    """A bounded model of the design: a violation here is a defect of the specification itself
    (or of an observed constant fed into it - callers that feed observations handle that)."""
    res = tlc_model(module, cfg, workers=workers, timeout=timeout)
    ctx.add_model(module + "/" + cfg, res)
    if not res["ok"]:
        raise ToolError("bounded model %s/%s violated %s on its own:\n%s" % (module, cfg, res["violated"], res["out"][-3000:]))
    return res


def validate_star(ctx, module, cfg, trace, parts=8, what="event"):
    """Star-shaped trace validation; every rejected event becomes a violation with a replay file."""
    r = tlc_trace_star(module, cfg, trace, parts=parts)
    ctx.states += r["states"]
    ctx.transitions += r["transitions"]
    ctx.traces += r["events"] - len(r["rejected"])
    log("[trace] %s: %d events, %d rejected, %.1fs" % (os.path.basename(trace), r["events"], len(r["rejected"]), r["wall"]))
    for (ln, text) in r["rejected"]:
        p = save_replay(ctx.prop, "violation-line%d.ndjson" % ln, text)
        try:
            ev = json.loads(text)
        except Exception:
            ev = {}
        brief = {k: v for k, v in ev.items() if not isinstance(v, (list, dict))}
        ctx.violation("%s rejected by %s (trace line %d): %s" % (what, module, ln, json.dumps(brief)), p, brief)
    return r


def sample_events(ctx, lines, n=3, maxlen=500):
    step = max(1, len(lines) // n)
    for i in range(0, len(lines), step):
        ctx.samples.append(short(lines[i], maxlen))
        if len(ctx.samples) >= n:
            break


# ======================================================================
# C02 - recovery shards are the closed-form scaled-Cauchy code

def check_C02(ctx):
    ctx.rule = ("encode rounds of the real code (all engines, all codec kinds, the one-shot function and the ancestor crate "
                "reed-solomon-16 0.1.0) recorded with raw bytes; TLC evaluates Code!Encode over GF(2^16) built from the field "
                "polynomial and the Cantor basis only, on the layout-selected slots. distinct = distinct (rate,k,r,sb,engine,kind,data) events")
    ctx.assumptions = ["TLC arithmetic and CommunityModules Java overrides are trusted",
                       "slots per event are sampled by the specification (block edges, whole tail block, ends, one seeded slot); "
                       "recovery indexes are complete for small events and sampled (ends, chunk edges, spread) for large ones",
                       "small-field model MC_Field checks the linear shortcuts (SMLin, hoisted matrix) the 16-bit evaluation uses"]
    if ctx.replay:
        r = validate_star(ctx, "Trace_Code", "Trace_Code.cfg", ctx.replay, parts=1, what="encode round")
        return
    # design level: the definitions on small fields
    for b in ([2, 4] if not ctx.thorough else [2, 3, 4, 5, 6, 8]):
        model_must_hold(ctx, "MC_Field", "MC_Field_%d.cfg" % b)
    algo_models(ctx)
    trace = ctx.path("trace.ndjson")
    rc, info, out = harness(["code", "--family", "c02", "--out", trace, "--seed", ctx.seed, "--tier", ctx.tier])
    ctx.evaluations = info["events"]
    ctx.extra["harness_stats"] = info.get("stats", {})
    r = validate_star(ctx, "Trace_Code", "Trace_Code.cfg", trace, parts=10 if ctx.thorough else 8, what="encode round")
    ctx.distinct = r["events"]
    sample_events(ctx, r["lines"])
    history_component(ctx, roles=("enc",))


# ======================================================================
# Object-protocol machinery shared by C05 C06 C07 C09 C11 C12 C17

import graph as graphmod


def decwork_models(ctx, quick_bits=3):
    """DecWork.tla: the decoder's bitmap / base positions / counters refine Codec.tla's sets (design level; bound to the
    code by the snapshot obligations of Trace_Codec: stray = 0, counters = cardinalities, received sets)."""
    for b in ([3, 4, 5] if ctx.thorough else [quick_bits]):
        model_must_hold(ctx, "DecWork", "MC_DecWork_%d.cfg" % b)


def codec_graph(ctx, role, inst, variant=""):
    """Model-checks MC_Codec for (role, instance) and turns the emitted edges into graph.json."""
    cfg = "MC_Codec_%s_%s%s.cfg" % (role, inst, variant)
    res = tlc_run("MC_Codec", cfg, workers=4, timeout=1800, tag="MC_Codec_%s_%s%s_%s" % (role, inst, variant, ctx.prop))
    log("[tlc] MC_Codec/%s: %d generated, %d distinct, %.1fs" % (cfg, res["generated"], res["distinct"], res["wall"]))
    if not res["ok"]:
        raise ToolError("MC_Codec %s violated %s on its own:\n%s" % (cfg, res["violated"], res["out"][-3000:]))
    ctx.add_model("MC_Codec/" + cfg, res)
    kind0 = "default" if inst == "rate" else "rs"
    scale = 64 if "x64" in variant else (8192 if "x8192" in variant else 1)
    g = graphmod.build(res["out"], role, kind0, [2, 1, 64 * scale])
    path = ctx.path("graph_%s_%s%s.json" % (role, inst, variant))
    json.dump(g, open(path, "w"))
    return path, len(g["nodes"]), len(g["edges"])


def replay(ctx, gpath, mode, engines=None, acts=None, walks=0, length=40, trace=None, alloc=False, threads=12):
    args = ["replay", "--graph", gpath, "--outdir", ctx.dir, "--seed", ctx.seed, "--mode", mode,
            "--walks", walks, "--len", length, "--threads", threads]
    if engines:
        args += ["--engines", ",".join(engines)]
    if acts:
        args += ["--acts", ",".join(acts)]
    if trace:
        args += ["--trace", trace]
    if alloc:
        args += ["--alloc", "1"]
    rc, info, out = harness(args)
    if info is None:
        raise ToolError("replay produced no report:\n" + out[-2000:])
    log("[replay] %s mode=%s engines=%s: %d scripts, %d steps, %d/%d edges, %d violations" % (
        os.path.basename(gpath), mode, ",".join(engines or ["all"]), info["scripts"], info["steps"],
        info["edges_covered"], info["edges"], len(info["violations"])))
    ctx.traces += info["scripts"] - len(info["violations"])
    ctx.evaluations += info["steps"]
    ctx.extra.setdefault("replay", []).append({"graph": os.path.basename(gpath), "mode": mode, "scripts": info["scripts"],
                                               "steps": info["steps"], "edges": info["edges"],
                                               "edges_covered": info["edges_covered"], "classes": info.get("classes", {})})
    for v in info["violations"]:
        ev = classify(v["what"])
        ctx.violation(v["what"], v["replay"], ev)
    return info


def classify(what):
    """Fields of a replay mismatch that known_findings.json entries can match on."""
    ev = {"source": "replay"}
    m = re.search(r'"err":"PANIC","msg":"([^"]*)"', what.replace('\\"', '"'))
    if m:
        ev["panic"] = m.group(1)
    if "inner codec missing" in what:
        ev["class"] = "inner-codec-missing"
    elif "panicked" in what or "PANIC" in what:
        ev["class"] = "panic"
    elif "return value" in what:
        ev["class"] = "return-value"
    elif "object state differs" in what:
        ev["class"] = "state"
    else:
        ev["class"] = "bytes-or-view"
    return ev


def validate_codec_traces(ctx, prefix, role, limit_files=None):
    """Concatenates the walk traces the replayer wrote (<prefix>.<engine>.<part>) and validates them with Trace_Codec."""
    files = sorted(f for f in os.listdir(os.path.dirname(prefix)) if f.startswith(os.path.basename(prefix) + "."))
    if limit_files:
        files = files[:limit_files]
    if not files:
        raise ToolError("no walk traces at " + prefix)
    allp = prefix + ".all.ndjson"
    # at most max_events events are validated (whole histories, taken round-robin from the per-engine files)
    max_events = 400000
    total = 0
    with open(allp, "w") as out:
        handles = [open(os.path.join(os.path.dirname(prefix), f)) for f in files]
        pending = [None] * len(handles)
        live = list(range(len(handles)))
        while live and total < max_events:
            for hi in list(live):
                h = handles[hi]
                # copy one history: from a "new" event up to (not including) the next one
                first = pending[hi] or h.readline()
                pending[hi] = None
                if not first:
                    live.remove(hi)
                    continue
                out.write(first)
                total += 1
                while True:
                    ln = h.readline()
                    if not ln:
                        live.remove(hi)
                        break
                    if '"ev":"new"' in ln:
                        pending[hi] = ln
                        break
                    out.write(ln)
                    total += 1
        for h in handles:
            h.close()
    r = tlc_trace_seq("Trace_Codec", "Trace_Codec_%s.cfg" % role, allp)
    ctx.states += r["states"]
    ctx.transitions += r["transitions"]
    log("[trace] %s: %d events, accepted=%s (%.1fs)" % (os.path.basename(allp), r["events"], r["accepted"], r["wall"]))
    if r["accepted"]:
        ctx.traces += sum(1 for x in open(allp) if '"ev":"new"' in x)
        ctx.extra["trace_events_validated"] = ctx.extra.get("trace_events_validated", 0) + r["events"]
    else:
        lines = open(allp).read().splitlines()
        at = (r["matched"] or 0)
        # replay file: the history containing the rejected event (from its "new" event on)
        start = at
        while start > 0 and '"ev":"new"' not in lines[start]:
            start -= 1
        p = save_replay(ctx.prop, "violation-trace-%s-line%d.ndjson" % (role, at + 1), "\n".join(lines[start:at + 1]))
        try:
            ev = json.loads(lines[at])
        except Exception:
            ev = {}
        brief = {k: v for k, v in ev.items() if k not in ("out", "ref")}
        why = r["violated"] or "no action of Codec.tla explains it"
        ctx.violation("recorded call rejected by Trace_Codec (%s) at line %d of %d: %s" % (why, at + 1, r["events"], json.dumps(brief)),
                      p, {"source": "trace", "ev": ev.get("ev"), "class": "trace"})
    for f in files:
        os.remove(os.path.join(os.path.dirname(prefix), f))
    return r


def free_component(ctx, roles=("enc", "dec"), runs=None, length=80, alloc=False, big=False, engines=None):
    """Random histories OUTSIDE the bounded graph (arbitrary small/medium configurations, indexes, lengths, invalid resets):
    the harness only records; Trace_Codec.tla decides every return value, snapshot, exposed digest (and allocation)."""
    runs = runs or (2400 if ctx.thorough else 180)
    for role in roles:
        prefix = ctx.path("free_%s.trace" % role)
        args = ["freewalk", "--role", role, "--trace", prefix, "--seed", ctx.seed, "--runs", runs, "--len", length]
        if alloc:
            args += ["--alloc", "1"]
        if big:
            args += ["--bigshards", "1"]
        if engines:
            args += ["--engines", ",".join(engines)]
        rc, info, out = harness(args)
        ctx.evaluations += info["steps"]
        ctx.extra.setdefault("free_walks", []).append({"role": role, "runs": info["runs"], "steps": info["steps"], "events": info["events"]})
        validate_codec_traces(ctx, prefix, role)


CODEC_ASSUME = ["the projection reported by hook H2 (configuration, inner rate, counters, received index sets) plus the result bytes is everything later calls depend on",
                "poison hook H1 overwrites the whole working memory of every object under test with a never-repeating stream; reference objects run with poison off",
                "palette of configurations and argument classes is explicit (MC_Codec.tla); bytes are compared with a fresh dedicated-rate reference codec (Naive engine) whose output C02 pins to the closed form"]


def replay_samples(ctx, gpath, n=2):
    g = json.load(open(gpath))
    for e in g["edges"][:: max(1, len(g["edges"]) // n)][:n]:
        ctx.samples.append({"from": g["nodes"][e[0]], "call": {k: v for k, v in e[2].items() if k != "may_alloc"}, "to": g["nodes"][e[1]]})


def check_C06(ctx):
    ctx.rule = ("every edge of the reachable graph of Codec.tla over the palette (all failing calls from every reachable object state, "
                "usize extremes, simultaneous violations) replayed on the real code: return value must be in the specification's allowed "
                "set (Ok iff no documented precondition is violated, else an Err whose variant and fields describe one violated precondition), "
                "panics are never allowed. distinct = distinct edges covered")
    ctx.assumptions = CODEC_ASSUME + ["harness built with overflow-checks and debug-assertions on"]
    if ctx.replay:
        return replay_script(ctx)
    variant = "_big" if ctx.thorough else ""
    engines = ["naive", "default"] if not ctx.thorough else None
    covered = 0
    for role in ("enc", "dec"):
        for inst in ("rate", "rs"):
            gp, nn, ne = codec_graph(ctx, role, inst, variant)
            info = replay(ctx, gp, "edges", engines=engines if inst == "rate" else ["default"])
            covered += info["edges_covered"]
            replay_samples(ctx, gp, 1)
    ctx.distinct = covered
    ctx.exhaustive = True
    oneshot_cases(ctx, maxshards=2 if not ctx.thorough else 3)
    free_component(ctx, runs=None if ctx.thorough else 120, engines=None if ctx.thorough else ["naive", "default", "nosimd"])


def check_C07(ctx):
    ctx.rule = ("every edge of the graph replayed THROUGH failing calls: path to the source state, one (thorough: also two) failing calls "
                "chosen among that state's failing edges, the edge itself, then the shortest continuation to a result whose bytes are compared; "
                "after each failing call the snapshot must equal the source state. distinct = distinct edges covered through failures")
    ctx.assumptions = CODEC_ASSUME
    if ctx.replay:
        return replay_script(ctx)
    variant = "_big" if ctx.thorough else ""
    decwork_models(ctx)
    covered = 0
    for role in ("enc", "dec"):
        for inst in ("rate", "rs"):
            gp, nn, ne = codec_graph(ctx, role, inst, variant)
            mode = "fail1,fail2" if ctx.thorough else "fail1"
            info = replay(ctx, gp, mode, engines=(["naive", "default"] if inst == "rate" and not ctx.thorough else None) if inst == "rate" else ["default"])
            covered += info["edges_covered"]
            replay_samples(ctx, gp, 1)
    ctx.distinct = covered
    ctx.exhaustive = True
    free_component(ctx, runs=None if ctx.thorough else 120, engines=None if ctx.thorough else ["naive", "default", "ssse3"])


def check_C05(ctx):
    ctx.rule = ("seeded random walks over the reachable graph of Codec.tla (rounds, resets across shapes and rates, re-housing across kinds, failing calls "
                "in between) on every engine with poisoned working memory; every result compared with a fresh dedicated-rate reference codec; the same "
                "walks recorded and validated event by event by Trace_Codec. distinct = distinct edges covered by walks")
    ctx.assumptions = CODEC_ASSUME
    if ctx.replay:
        return replay_script(ctx)
    algo_models(ctx)
    decwork_models(ctx, quick_bits=4)
    covered = 0
    walks, length = (5000, 200) if ctx.thorough else (360, 40)
    for role in ("enc", "dec"):
        gp, nn, ne = codec_graph(ctx, role, "rate", "_big" if ctx.thorough else "")
        tr = ctx.path("walk_%s.trace" % role)
        info = replay(ctx, gp, "walks", walks=walks, length=length, trace=tr)
        covered += info["edges_covered"]
        validate_codec_traces(ctx, tr, role, limit_files=12)
        replay_samples(ctx, gp, 1)
    gp, nn, ne = codec_graph(ctx, "dec", "rs")
    info = replay(ctx, gp, "walks", walks=walks // 4, length=length, engines=["default"])
    covered += info["edges_covered"]
    ctx.distinct = covered
    free_component(ctx)
    code_family(ctx, "twins", parts=3, what="twin round on a reused decoder")


def check_C11(ctx):
    ctx.rule = ("decoder graph of Codec.tla: the state is a pair of index SETS, so every order of adding a set of shards is a distinct path to one node; "
                "every edge replayed on every engine with the projection and the restored bytes compared at the target (induction over path length: "
                "all orders and all surplus sets up to the palette bound give the same result); plus permutations and surplus at scale validated by Trace_Code. "
                "distinct = distinct edges covered")
    ctx.assumptions = CODEC_ASSUME
    if ctx.replay:
        return replay_script(ctx)
    gp, nn, ne = codec_graph(ctx, "dec", "rate", "_big" if ctx.thorough else "")
    info = replay(ctx, gp, "edges", acts=["add_original", "add_recovery", "decode", "iter", "query"])
    ctx.distinct = info["edges_covered"]
    ctx.exhaustive = True
    replay_samples(ctx, gp, 2)
    code_family(ctx, "c11,twins", what="decode round (orders, surplus, twin rounds on a reused decoder)")
    # several rounds on one decoder: orders and surplus must not leak from one round into the next
    replay(ctx, gp, "walks", walks=240 if not ctx.thorough else 2400, length=60)
    free_component(ctx, roles=("dec",), runs=None if ctx.thorough else 120)


def check_C12(ctx):
    ctx.rule = ("result accessors on every live state of the graph: recovery(i)/restored_original(i) over the index palette (0..3, 65535, 65536, MAX-1, MAX), "
                "iteration to exhaustion and three more polls, drop followed by a new round; walks with many consecutive rounds; "
                "distinct = distinct query/iter/drop edges covered")
    ctx.assumptions = CODEC_ASSUME
    if ctx.replay:
        return replay_script(ctx)
    decwork_models(ctx)
    covered = 0
    for role in ("enc", "dec"):
        for inst in ("rate", "rs"):
            gp, nn, ne = codec_graph(ctx, role, inst, "_big" if ctx.thorough else "")
            info = replay(ctx, gp, "edges,walks", acts=["query", "iter", "drop", "encode", "decode"], walks=200 if not ctx.thorough else 2000,
                          length=60, engines=None if inst == "rate" else ["default"])
            covered += info["edges_covered"]
            replay_samples(ctx, gp, 1)
    ctx.distinct = covered
    ctx.exhaustive = True
    code_family(ctx, "c12")
    free_component(ctx, runs=None if ctx.thorough else 120)


def check_C17(ctx):
    ctx.rule = ("walks over the graph with 8192x larger shards (16 KiB .. 1 MiB), a counting allocator armed around every call; Trace_Codec carries the history "
                "variable `held` (largest working-space need since the work space was created) and rejects a call that moves the buffer, or - decided on shards "
                "of at least 400 000 bytes, beyond any constant-size scratch a codec could want - allocates at least one shard's worth of memory, although the "
                "configuration needs no more than is held. distinct = distinct edges covered")
    ctx.assumptions = CODEC_ASSUME + ["allocations are observed through a counting global allocator (thread-local, armed around the call only)",
                                      "tables are forced before the measured region (first decode lazily initialises LOG_WALSH: not working space)"]
    if ctx.replay:
        return replay_script(ctx)
    covered = 0
    walks, length = (3000, 120) if ctx.thorough else (300, 50)
    for role in ("enc", "dec"):
        gp, nn, ne = codec_graph(ctx, role, "rate", "_x8192")
        tr = ctx.path("alloc_%s.trace" % role)
        info = replay(ctx, gp, "walks", walks=walks, length=length, trace=tr, alloc=True, engines=["naive", "default", "nosimd"], threads=6)
        covered += info["edges_covered"]
        validate_codec_traces(ctx, tr, role)
        replay_samples(ctx, gp, 1)
    ctx.distinct = covered
    free_component(ctx, runs=None if ctx.thorough else 90, alloc=True, big=True, engines=["naive", "default", "avx2"])


def replay_script(ctx):
    """--replay <path>: a saved script (json) is re-executed; a saved trace (ndjson) is re-validated."""
    p = ctx.replay
    if p.endswith(".json"):
        rc, info, out = harness(["replay-script", "--script", p])
        for v in (info or {}).get("violations", []):
            ctx.violation(v["what"], p, classify(v["what"]))
    else:
        role = "dec" if '"role":"dec"' in open(p).read(2000) else "enc"
        r = tlc_trace_seq("Trace_Codec", "Trace_Codec_%s.cfg" % role, p)
        if not r["accepted"]:
            ctx.violation("trace rejected by Trace_Codec at line %s" % ((r["matched"] or 0) + 1), p, {"source": "trace"})


def oneshot_cases(ctx, maxshards=None):
    """MC_OneShot: every short argument list of encode()/decode() over the palette; the streaming fold lies inside the
    contract (model invariant); every case replayed on the real functions side by side with the streaming API."""
    n = maxshards or (3 if not ctx.thorough else 4)
    cfg = "MC_OneShot_%d.cfg" % n
    res = tlc_run("MC_OneShot", cfg, workers=6, timeout=3000, tag="MC_OneShot_%d_%s" % (n, ctx.prop))
    log("[tlc] MC_OneShot/%s: %d generated, %d distinct, %.1fs" % (cfg, res["generated"], res["distinct"], res["wall"]))
    if not res["ok"]:
        raise ToolError("MC_OneShot violated %s on its own:\n%s" % (res["violated"], res["out"][-3000:]))
    ctx.add_model("MC_OneShot/" + cfg, res)
    cases = ctx.path("oneshot_cases.ndjson")
    cnt = 0
    with open(cases, "w") as out:
        for line in res["out"].splitlines():
            if line.startswith('<<"CASE", "'):
                out.write(json.loads(line[len('<<"CASE", '):-2]) + "\n")
                cnt += 1
    rc, info, o = harness(["oneshot", "--cases", cases, "--outdir", ctx.dir, "--seed", ctx.seed, "--big-every", 3 if ctx.thorough else 9])
    log("[oneshot] %d cases, %d violations" % (info["cases"], len(info["violations"])))
    ctx.traces += info["cases"] - len(info["violations"])
    ctx.evaluations += info["cases"]
    ctx.extra["oneshot_cases"] = info["cases"]
    for v in info["violations"]:
        ctx.violation(v["what"], v["replay"], {"source": "oneshot", "fn": v["fn"], "recovery_given": v["recovery_given"]})
    with open(cases) as f:
        lines = f.read().splitlines()
    for i in (len(lines) // 3, 2 * len(lines) // 3):
        ctx.samples.append(short(lines[i], 500))
    return info


def check_C10(ctx):
    ctx.rule = ("every argument list of the one-shot encode()/decode() with at most 3 (thorough: 4) shards over the palette (counts incl. 0, 65536, MAX; "
                "indexes 0,1,k-1,k,MAX; lengths 64,66,1,0) enumerated by TLC from OneShot.tla with the set of truthful errors; each case executed on the "
                "real function and on the streaming API: return value in the allowed set, success iff the contract is empty, identical results. "
                "distinct = distinct cases")
    ctx.assumptions = ["argument lists are bounded by the palette and MaxShards", "NotEnoughShards is truthful when its counts add up to fewer than original_count"]
    if ctx.replay:
        c = json.load(open(ctx.replay))
        tmp = ctx.path("replay_case.ndjson")
        open(tmp, "w").write(json.dumps(c) + "\n")
        rc, info, o = harness(["oneshot", "--cases", tmp, "--outdir", ctx.dir, "--seed", ctx.seed])
        for v in info["violations"]:
            ctx.violation(v["what"], ctx.replay, {"source": "oneshot", "fn": v["fn"], "recovery_given": v["recovery_given"]})
        return
    info = oneshot_cases(ctx)
    ctx.distinct = info["cases"]
    ctx.exhaustive = True
    # at scale: one-shot decode() and ReedSolomonDecoder on long runs of received shards with single losses
    code_family(ctx, "c10", parts=4, what="one-shot / wrapper decode round")


def code_family(ctx, fam, parts=None, what="recorded round"):
    """Runs a family of the `code` driver and validates its trace with Trace_Code (closed form over GF(2^16))."""
    trace = ctx.path("trace_%s.ndjson" % fam.replace(",", "_"))
    rc, info, out = harness(["code", "--family", fam, "--out", trace, "--seed", ctx.seed, "--tier", ctx.tier])
    ctx.evaluations += info["events"]
    ctx.extra.setdefault("harness_stats", {}).update(info.get("stats", {}))
    r = validate_star(ctx, "Trace_Code", "Trace_Code.cfg", trace, parts=parts or (10 if ctx.thorough else 8), what=what)
    ctx.distinct += r["events"]
    sample_events(ctx, r["lines"], n=2, maxlen=400)
    return r


CODE_ASSUME = ["TLC arithmetic and CommunityModules Java overrides are trusted",
               "events carry raw bytes where the specification computes on them and 64-bit FNV-1a digests otherwise",
               "given shards of decode rounds are originals plus a reference encoder's recovery, which C02's events pin to the closed form"]


def history_component(ctx, roles=("enc", "dec"), walks=None, length=40):
    """Reused-object histories for the byte-level properties: seeded walks over the Codec.tla graph (rounds, resets across
    shapes and rates, re-housing, failing calls in between) on every engine with poisoned memory; every result compared with
    a fresh reference codec and the projection with the model after every step."""
    walks = walks or (2000 if ctx.thorough else 240)
    for role in roles:
        gp, nn, ne = codec_graph(ctx, role, "rate", "_big" if ctx.thorough else "")
        replay(ctx, gp, "walks", walks=walks, length=length)


def check_C01(ctx):
    ctx.rule = ("decode rounds of the real code on sufficient shard sets: every (rate,k,r) with k+r<=7 (thorough 10) with maximum-loss, scattered, burst and "
                "surplus patterns, random mid-size configurations, envelope corners and chunk edges at maximum loss, all engines and kinds incl. the one-shot "
                "function; Trace_Code requires success and exactly the missing originals, byte for byte (digests), ascending. Plus the bounded design model "
                "MC_Algo where the transcribed decoders restore every subset on GF(4)/GF(16). distinct = distinct recorded rounds")
    ctx.assumptions = CODE_ASSUME
    if ctx.replay:
        return validate_star(ctx, "Trace_Code", "Trace_Code.cfg", ctx.replay, parts=1)
    algo_models(ctx, "dec")
    code_family(ctx, "c01,twins", what="decode round")
    history_component(ctx)


def check_C13(ctx):
    ctx.rule = ("triples (A, B, A xor B), pairs (A, c*A) and zero data encoded by the real code; Trace_Code checks the input relation itself and the "
                "output relation bytewise / symbolwise with GF!Mul over GF(2^16), and every round against the closed form. distinct = recorded rounds and relations")
    ctx.assumptions = CODE_ASSUME
    if ctx.replay:
        return validate_star(ctx, "Trace_Code", "Trace_Code.cfg", ctx.replay, parts=1)
    model_must_hold(ctx, "MC_Field", "MC_Field_4.cfg")
    code_family(ctx, "c13", what="encode round / linear relation")
    history_component(ctx, roles=("enc",))


def check_C04(ctx):
    ctx.rule = ("every even shard size 2..132 (thorough 2..258 and 510, 1022, 4098): an encode round whose EVERY symbol slot TLC evaluates with the closed form "
                "through Layout.tla (so each slot equals coding that slot alone), exact output lengths, and a maximum-loss decode at the same size. distinct = rounds")
    ctx.assumptions = CODE_ASSUME + ["poison hook on: lanes of the final partial block hold garbage"]
    if ctx.replay:
        return validate_star(ctx, "Trace_Code", "Trace_Code.cfg", ctx.replay, parts=1)
    code_family(ctx, "c04", what="round at an uncommon shard size")
    history_component(ctx)


def algo_models(ctx, which=None):
    """Design level: the transcribed procedures (Algo.tla) on GF(4) and GF(16): encoders = closed form for every
    poison value, decoders restore every sufficient subset, primitive schedules agree on the determined region."""
    model_must_hold(ctx, "MC_Algo", "MC_Algo_2.cfg", workers=4)
    model_must_hold(ctx, "MC_Algo", "MC_Algo_4_corners.cfg", workers=4)
    if not ctx.thorough:
        model_must_hold(ctx, "MC_Algo", "MC_Algo_4.cfg", workers=8)
    else:
        # all 170 configurations of GF(16); GF(256): all configurations with k+r<=13, and the staircase corners /
        # chunk edges of the GF(256) envelope (up to 16 chunks) at maximum loss
        model_must_hold(ctx, "MC_Algo", "MC_Algo_4_full.cfg", workers=8, timeout=3600)
        model_must_hold(ctx, "MC_Algo", "MC_Algo_8_full.cfg", workers=8, timeout=5400)
        model_must_hold(ctx, "MC_Algo", "MC_Algo_8_corners.cfg", workers=8, timeout=5400)


def prim_models(ctx):
    model_must_hold(ctx, "MC_Prim", "MC_Prim_2.cfg", workers=2)
    model_must_hold(ctx, "MC_Prim", "MC_Prim_4.cfg", workers=4)


# ======================================================================
# C08 envelope, C09 rate rule

def rows_trace(ctx):
    trace = ctx.path("rows.ndjson")
    rc, info, out = harness(["rows", "--out", trace, "--seed", ctx.seed, "--tier", ctx.tier])
    ctx.evaluations += info["pairs_evaluated"]
    ctx.extra["rows"] = {k: info[k] for k in ("rows", "pairs_evaluated", "val_events", "preds")}
    r = validate_star(ctx, "Trace_Envelope", "Trace_Envelope.cfg", trace, parts=6, what="row / validate result")
    return r, info


def check_C08(ctx):
    ctx.rule = ("(1) Envelope.tla theorems (README table = code formulation = union of the two dedicated halves; rows are intervals; breakpoints) "
                "model-checked over the whole square for Bits=2..8; (2) every supports() predicate of the crate (3 rates, 6 rate codecs, ReedSolomonEncoder/"
                "Decoder) evaluated over whole rows r=0..65537 for every 16th original_count and all power-of-two / corner neighbourhoods (thorough: ALL 65538 "
                "rows = 4.3e9 pairs per predicate), recorded as run-lengths and validated by Trace_Envelope against the table read literally; "
                "(3) validate/new at all 31 corners +-1 and usize extremes with sizes {0,1,2,63,64,MAX}; (4) reset/rehouse edges of the Codec graph; "
                "(5) an encode + maximum-loss decode at corner configurations. distinct = rows + corner events")
    ctx.assumptions = ["ThmBreaks (value constant between breakpoints) is model-checked for Bits<=8 and used to validate 16-bit rows from run-lengths",
                       "shard sizes too large to allocate are outside the property: constructors are only called with sizes <= 64"]
    if ctx.replay:
        if ctx.replay.endswith(".json"):
            return replay_script(ctx)
        t = open(ctx.replay).read(200)
        mod = "Trace_Envelope" if ('"ev":"row"' in t or '"ev":"val"' in t) else "Trace_Code"
        return validate_star(ctx, mod, mod + ".cfg", ctx.replay, parts=1)
    for b in ([2, 3, 4, 6, 8] if not ctx.thorough else [2, 3, 4, 5, 6, 7, 8]):
        model_must_hold(ctx, "MC_Envelope", "MC_Envelope_%d.cfg" % b)
    r, info = rows_trace(ctx)
    ctx.distinct += r["events"]
    ctx.exhaustive = ctx.thorough
    sample_events(ctx, r["lines"], n=2, maxlen=300)
    for role in ("enc", "dec"):
        gp, nn, ne = codec_graph(ctx, role, "rate", "_big" if ctx.thorough else "")
        replay(ctx, gp, "edges", acts=["reset", "rehouse"], engines=["naive"])
        gp, nn, ne = codec_graph(ctx, role, "rs")
        replay(ctx, gp, "edges", acts=["reset"], engines=["default"])
    code_family(ctx, "c08", what="round at an envelope corner")


def check_C09(ctx):
    ctx.rule = ("(1) the private rate rule (hook H5) over whole rows for every 16th original_count and all power-of-two neighbourhoods (thorough: all rows), "
                "validated by Trace_Envelope against UseHigh; (2) inner rate after every New/Reset/Rehouse edge of the Codec graph on every engine; "
                "(3) default-rate codec / ReedSolomonEncoder / one-shot vs the dedicated codec of the rule's rate on the same data for all (k,r)<=12x12 "
                "(thorough 24x24) and power-of-two boundaries, each also checked against the closed form, plus decoding of dedicated-encoded shards. "
                "distinct = rows + rounds")
    ctx.assumptions = CODE_ASSUME + ["ThmRate (UseHigh => HighSupports, else LowSupports) model-checked for Bits<=8"]
    if ctx.replay:
        if ctx.replay.endswith(".json"):
            return replay_script(ctx)
        t = open(ctx.replay).read(200)
        mod = "Trace_Envelope" if ('"ev":"row"' in t or '"ev":"val"' in t) else "Trace_Code"
        return validate_star(ctx, mod, mod + ".cfg", ctx.replay, parts=1)
    for b in [4, 8]:
        model_must_hold(ctx, "MC_Envelope", "MC_Envelope_%d.cfg" % b)
    r, info = rows_trace(ctx)
    ctx.distinct += r["events"]
    for role in ("enc", "dec"):
        gp, nn, ne = codec_graph(ctx, role, "rate", "_big" if ctx.thorough else "")
        replay(ctx, gp, "edges", acts=["reset", "rehouse"])
    gp, nn, ne = codec_graph(ctx, "enc", "rs")
    replay(ctx, gp, "edges", acts=["reset", "encode", "iter"], engines=["default"])
    code_family(ctx, "c09", what="default-rate vs dedicated round")
    # the API layers over call sequences, failing calls included: ReedSolomon* graph walks and one-shot cases run back to back
    gp, nn, ne = codec_graph(ctx, "dec", "rs")
    replay(ctx, gp, "walks", walks=120, length=40, engines=["default"])
    oneshot_cases(ctx, maxshards=2 if not ctx.thorough else 3)
    history_component(ctx, walks=120 if not ctx.thorough else 1200)


# ======================================================================
# C15 primitives and tables, C03 engines bit-identical

def table_digests(ctx, trace):
    """Appends to `trace` one `tabledig` event per CPU affinity: the tables as built by a fresh process that sees 1, 3, 5, 6, 7,
    12 CPUs must equal those of the unrestricted process (validated entry by entry in the same trace)."""
    import shutil as _sh
    tmp = ctx.path("tabledig.ndjson")
    rc, info, out = harness(["prims", "--family", "tabledig", "--out", tmp, "--seed", ctx.seed])
    lines = [open(tmp).read().strip()]
    base = json.dumps(json.loads(lines[0])["digs"], separators=(",", ":"))
    if _sh.which("taskset"):
        ncpu = os.cpu_count() or 1
        for n in [c for c in (1, 3, 5, 6, 7, 12) if c < ncpu]:
            rc, o, dt = sh(["taskset", "-c", "0-%d" % (n - 1), BIN, "prims", "--family", "tabledig", "--out", tmp, "--seed", str(ctx.seed), "--base", base], cwd=VERIF, timeout=600, env={"RUST_MIN_STACK": str(64 << 20)})
            if rc != 0:
                raise ToolError("tabledig under taskset failed rc=%d: %s" % (rc, o[-500:]))
            lines.append(open(tmp).read().strip())
    with open(trace, "a") as f:
        f.write("\n".join(lines) + "\n")
    ctx.extra["table_digests_cpu_counts"] = [json.loads(l)["cpus"] for l in lines]
    return len(lines)


def prim_trace(ctx, fams, parts=4, what="primitive / table event", engines=None):
    trace = ctx.path("prims_%s.ndjson" % fams.replace(",", "_"))
    args = ["prims", "--family", fams, "--out", trace, "--seed", ctx.seed, "--tier", ctx.tier]
    if engines:
        args += ["--engines", ",".join(engines)]
    rc, info, out = harness(args)
    if "tables" in fams.split(","):
        info["events"] += table_digests(ctx, trace)
    ctx.evaluations += info["events"]
    r = validate_star(ctx, "Trace_Prim", "Trace_Prim.cfg", trace, parts=parts, what=what)
    ctx.distinct += r["events"]
    sample_events(ctx, r["lines"], n=2, maxlen=300)
    return r


def shards_component(ctx):
    """Shards.tla: the working-space views and XOR helpers every transform is built on (public engine interface).
    Reported as observations (NOTE lines, evidence `shards_observations`), never as a violation of C15.
    spec -> implementation -> spec: TLC enumerates every history of legal calls on a palette of buffer shapes
    (checking frame, nesting and closure properties on the way) and prints them as scripts; the harness replays them on the
    real ShardsRefMut / utils::xor / utils::xor_within and records every chunk of the buffer after every call;
    Trace_Shards validates the recording against the same actions.  Seeded random walks add larger shapes."""
    cfgs = ["MC_Shards_2.cfg"] + (["MC_Shards_8.cfg"] if ctx.thorough else [])
    scripts = ctx.path("shards_scripts.ndjson")
    n = 0
    with open(scripts, "w") as f:
        for cfg in cfgs:
            res = tlc_run("MC_Shards", cfg, workers=4, timeout=1800, tag="MC_Shards_" + ctx.prop)
            if not res["ok"]:
                raise ToolError("MC_Shards %s violated %s on its own:\n%s" % (cfg, res["violated"], res["out"][-3000:]))
            res2 = dict(res)
            ctx.add_model("MC_Shards/" + cfg, res2)
            for line in res["out"].splitlines():
                if line.startswith('<<"SCRIPT", "'):
                    f.write(json.loads(line[len('<<"SCRIPT", '):-2]) + "\n")
                    n += 1
    trace = ctx.path("shards_trace.ndjson")
    rc, info, out = harness(["shards", "--scripts", scripts, "--every", 1 if ctx.thorough else 6, "--walks", 4000 if ctx.thorough else 400,
                             "--steps", 30, "--out", trace, "--seed", ctx.seed])
    ctx.evaluations += info["events"]
    r = tlc_trace_seq_parts("Trace_Shards", "Trace_Shards.cfg", trace, parts=8 if ctx.thorough else 4)
    ctx.states += r["states"]
    ctx.transitions += r["transitions"]
    log("[trace] %s: %d scripts of %d from TLC + walks, %d events, accepted=%s (%.1fs)" % (
        os.path.basename(trace), info["scripts"], n, r["events"], r["accepted"], r["wall"]))
    ctx.extra["shards"] = {"tlc_scripts": n, "replayed_histories": info["scripts"], "events": r["events"]}
    if r["accepted"]:
        ctx.traces += info["scripts"]
    for (text, at, line) in r["rejected"]:
        p = save_replay(ctx.prop, "violation-shards-%d.ndjson" % (len(ctx.violations) + 1), text)
        try:
            ev = json.loads(line)
        except Exception:
            ev = {}
        brief = {k: v for k, v in ev.items() if not isinstance(v, (list, dict))}
        # an OBSERVATION, not a verdict: C15 speaks about mul / fft / ifft / eval_poly and the tables; a defect of these
        # helpers that matters to them shows in the primitive events of the same run, and one that does not (say in a
        # range form no engine uses) leaves the property intact
        log("NOTE property=%s working-space call rejected by Trace_Shards (event %d of the history; observation, not a verdict): %s replay=%s" % (
            ctx.prop, at, json.dumps(brief), p))
        ctx.extra.setdefault("shards_observations", []).append({"event": brief, "replay": p})


def check_C15(ctx):
    ctx.rule = ("(1) MC_Field: field axioms, table contracts and linear shortcuts on small fields; (2) ALL entries of the crate's Exp, Log, Skew and LogWalsh tables "
                "and sampled multipliers of Mul16/Mul128 validated by TLC against GF.tla/LCH.tla built from the field polynomial and Cantor basis; (3) mul on probe "
                "blocks covering all 64 nibble patterns for sampled multipliers per engine; (4) fft/ifft for sizes 1..32, every truncated size, skew offsets incl. the "
                "last legal one, against the polynomial-evaluation contract FFTSpec; (5) eval_poly on mark sets against the locator definition at sampled points for "
                "several truncated sizes; (6) Shards.tla: every history of legal calls on the working-space views (ShardsRefMut new/index/dist2_mut/dist4_mut/split_at_mut/zero, "
                "utils::xor/xor_within) that TLC enumerates on a palette of buffer shapes is replayed on the real types, and seeded random walks on larger shapes, "
                "every chunk of the buffer after every call validated by Trace_Shards; thorough: all 2^32 (symbol, log_m) pairs per engine against the certified "
                "tables. distinct = recorded events")
    ctx.assumptions = ["TLC arithmetic and CommunityModules Java overrides are trusted",
                       "WhatLin = What and SkewLin = SkewDef are model-checked exhaustively on small fields and re-checked on a spread of entries at 16 bits",
                       "the thorough 2^32 loop runs in the harness against Exp/Log tables that the same run validates entry by entry"]
    if ctx.replay:
        return validate_star(ctx, "Trace_Prim", "Trace_Prim.cfg", ctx.replay, parts=1)
    for b in ([2, 4] if not ctx.thorough else [2, 3, 4, 5, 6, 8]):
        model_must_hold(ctx, "MC_Field", "MC_Field_%d.cfg" % b)
    prim_models(ctx)
    shards_component(ctx)
    prim_trace(ctx, "tables,mul,xf,impulse,evalpoly", parts=6 if not ctx.thorough else 10)
    if ctx.thorough:
        rc, info, out = harness(["prims", "--family", "mulx", "--out", ctx.path("x"), "--seed", ctx.seed], timeout=7200)
        ctx.extra["mul_pairs_exhaustive"] = info["pairs"]
        ctx.evaluations += info["pairs"]
        for b in info["bad"]:
            p = save_replay(ctx.prop, "violation-mulx.txt", b)
            ctx.violation("mul differs from GF!MulLog on the certified tables: " + b, p, {"source": "mulx"})


def check_C03(ctx):
    ctx.rule = ("(1) every public primitive (fft, ifft, mul, eval_poly) executed by EVERY engine (Naive, NoSimd, Ssse3, Avx2, DefaultEngine, Neon source on emulated "
                "intrinsics) from identical input over a parameter grid (sizes 1..64 and large, truncated sizes, positions, skew offsets incl. the last legal one, "
                "shard lengths 1..3 blocks): Trace_Prim requires bit-identical outputs on the region the contract determines and untouched shards outside the range; "
                "small transforms also against FFTSpec; (2) the same encode and decode rounds on every engine: identical recovery bytes (alleq), closed form, originals. "
                "distinct = recorded cases")
    ctx.assumptions = ["outputs a primitive's contract leaves open are not compared (fft beyond truncated_size; ifft only with zero input beyond truncated_size)",
                       "Neon semantics = the documented Arm semantics of vld1q_u8, vst1q_u8, veorq_u8, vandq_u8, vdupq_n_u8, vshrq_n_u8, vqtbl1q_u8 (harness/src/neon_emu.rs)"]
    if ctx.replay:
        t = open(ctx.replay).read(300)
        mod = "Trace_Code" if ('"ev":"enc"' in t or '"ev":"dec"' in t or '"ev":"alleq"' in t) else "Trace_Prim"
        return validate_star(ctx, mod, mod + ".cfg", ctx.replay, parts=1)
    prim_models(ctx)
    prim_trace(ctx, "xcase,xf,impulse", parts=5 if not ctx.thorough else 8, what="cross-engine primitive case")
    code_family(ctx, "c03", what="round on every engine")
    history_component(ctx, walks=120 if not ctx.thorough else 1200)


# ======================================================================
# C14 dispatch

def check_C14(ctx):
    ctx.rule = ("Dispatch.tla model-checked for the x86 and AArch64 preference orders (all feature subsets, all call sequences); the real DefaultEngine is run under "
                "all 4 subsets of {AVX2, SSSE3} through hook H3 (construction, fft/ifft/mul, eval_poly, whole encode/decode rounds through DefaultRate*, ReedSolomon* and "
                "the one-shot functions, both rates), every #[target_feature] entry point counted; Trace_Dispatch requires every executed instruction set to be reported "
                "and the best reported one, SIMD code to be used where reported, none when nothing is reported, and identical result digests under every mask. "
                "distinct = recorded calls")
    ctx.assumptions = ["the mask restricts detection, it cannot add features the host CPU lacks (this host reports AVX2 and SSSE3)",
                       "AArch64 detection cannot be exercised on this host: only the model covers it"]
    if ctx.replay:
        r = tlc_trace_seq("Trace_Dispatch", "Trace_Dispatch.cfg", ctx.replay)
        if not r["accepted"]:
            ctx.violation("dispatch trace rejected at line %s" % ((r["matched"] or 0) + 1), ctx.replay, {"source": "trace"})
        return
    model_must_hold(ctx, "MC_Dispatch", "MC_Dispatch_X86.cfg", workers=2)
    model_must_hold(ctx, "MC_Dispatch", "MC_Dispatch_Arm.cfg", workers=2)
    trace = ctx.path("dispatch.ndjson")
    rc, info, out = harness(["dispatch", "--out", trace, "--seed", ctx.seed, "--tier", ctx.tier])
    ctx.evaluations += info["events"]
    ctx.extra["host_reports"] = {"avx2": info["real"][0], "ssse3": info["real"][1]}
    r = tlc_trace_seq("Trace_Dispatch", "Trace_Dispatch.cfg", trace)
    ctx.states += r["states"]
    ctx.transitions += r["transitions"]
    log("[trace] dispatch: %d events accepted=%s" % (r["events"], r["accepted"]))
    lines = open(trace).read().splitlines()
    if r["accepted"]:
        ctx.traces += sum(1 for x in lines if '"ev":"mask"' in x)
        ctx.distinct = r["events"]
        ctx.exhaustive = True
    else:
        at = r["matched"] or 0
        start = at
        while start > 0 and '"ev":"mask"' not in lines[start]:
            start -= 1
        p = save_replay(ctx.prop, "violation-dispatch-line%d.ndjson" % (at + 1), "\n".join(lines[start:at + 1]))
        ctx.violation("dispatch event rejected by Trace_Dispatch (%s) at line %d: %s" % (r["violated"] or "no action explains it", at + 1, short(lines[at], 500)), p, {"source": "trace"})
    sample_events(ctx, lines, n=3, maxlen=400)


# ======================================================================
# C16 concurrency of independent objects / racing table initialisation

def check_C16(ctx):
    ctx.rule = ("(1) fresh single-threaded processes force each table alone and construct/use each engine: the nesting of hook H4's begin/end events gives the ACTUAL "
                "dependency relation and per-engine programs of the current tree; (2) TableInit.tla is model-checked over exactly those (3 threads, every choice of programs, "
                "all interleavings): no re-entrant initialisation, no deadlock, termination under weak fairness; (3) fresh processes with 2..8 threads released by a "
                "barrier, different engines, encode+decode rounds, objects handed to another thread mid-round: Trace_TableInit checks nesting, no re-entrancy, nesting within "
                "the observed dependencies, every result = sequential execution, normal exit (a watchdog turns a hang into a rejected event); (4) gated schedules: every "
                "reachable state of the model in which an initialiser is running is reached on the real code by holding threads at the begin / end of initialisers "
                "(hook H6) and releasing them at one instant - states with two running initialisers and 'about to publish while others arrive' repeated in "
                "thousands of fast processes with swept timing - and must terminate with sequential results. distinct = processes")
    ctx.assumptions = ["between the hold points of hook H6 real thread schedules are those the OS produced in this run; all interleavings are explored only in the model, over the observed dependencies",
                       "std::sync::LazyLock semantics (block while another thread initialises; re-entrancy never completes) are modelled, not re-verified"]
    if ctx.replay:
        d = os.path.dirname(ctx.replay)
        r = tlc_trace_seq("Trace_TableInit", "Trace_TableInit.cfg", ctx.replay, extra_env={"DEPS": os.path.join(d, "deps.ndjson")})
        if not r["accepted"]:
            ctx.violation("thread trace rejected at line %s" % ((r["matched"] or 0) + 1), ctx.replay, {"source": "trace"})
        return
    races = 2000 if ctx.thorough else 60
    rc, info, out = harness(["threads", "--outdir", ctx.dir, "--seed", ctx.seed, "--races", races, "--par", 6])
    deps, trace = ctx.path("deps.ndjson"), ctx.path("trace.ndjson")
    ctx.evaluations += info["events"]
    ctx.extra["processes"] = info["procs"]
    ctx.extra["observed"] = open(deps).read().splitlines()
    # the model over the observed dependencies: a violation here is a property violation (cycle / deadlock possible)
    res = tlc_run("MC_TableInit", "MC_TableInit.cfg", workers=6, timeout=1800, env={"DEPS": deps}, tag="MC_TableInit_" + ctx.prop)
    log("[tlc] MC_TableInit: %d generated, %d distinct, ok=%s %.1fs" % (res["generated"], res["distinct"], res["ok"], res["wall"]))
    ctx.add_model("MC_TableInit/observed-deps", res)
    if not res["ok"]:
        p = save_replay(ctx.prop, "violation-model.txt", "observed dependencies and programs:\n" + open(deps).read() + "\nTLC:\n" + res["out"][-6000:])
        ctx.violation("TableInit.tla over the dependencies observed from the code violates %s: some interleaving of racing first uses never completes" % res["violated"],
                      p, {"source": "model", "violated": res["violated"]})
    r = tlc_trace_seq("Trace_TableInit", "Trace_TableInit.cfg", trace, extra_env={"DEPS": deps})
    ctx.states += r["states"]
    ctx.transitions += r["transitions"]
    log("[trace] threads: %d events accepted=%s" % (r["events"], r["accepted"]))
    lines = open(trace).read().splitlines()
    if r["accepted"]:
        ctx.traces += info["procs"]
        ctx.distinct = info["procs"]
    else:
        at = r["matched"] or 0
        start = at
        while start > 0 and '"ev":"proc"' not in lines[start]:
            start -= 1
        p = save_replay(ctx.prop, "trace-violation.ndjson", "\n".join(lines[start:at + 1]))
        ctx.violation("process event rejected by Trace_TableInit at line %d: %s (process: %s)" % (at + 1, short(lines[at], 400), short(lines[start], 200)), p, {"source": "trace"})
    for ln in lines:
        if '"kind":"race"' in ln:
            ctx.samples.append(ln)
            break
    ctx.samples.append(lines[len(lines) // 2])
    if res["ok"]:
        gated_schedules(ctx, deps)


def gated_schedules(ctx, deps):
    """Specification -> implementation for C16: every reachable state of TableInit.tla (over the observed dependencies and
    programs) in which some initialiser is running is reached on the real code - hook H6 holds one thread per stack at the
    begin / end of its innermost initialiser, the threads about to force a table become arrivals - and then everything is
    released at the same instant.  The model says the system terminates from every such state whatever the scheduler does;
    a process that does not finish (watchdog), panics, or produces a result that differs from sequential execution is a
    violation.  States with two initialisers at their begin are repeated many times in 'fast' processes (they end as soon as
    all released threads but one have moved on), sweeping the relative timing of the released threads."""
    res = tlc_run("MC_TableInit", "MC_TableInit_sched.cfg", workers=4, timeout=1800, env={"DEPS": deps}, tag="MC_TableInit_sched_" + ctx.prop)
    if not res["ok"]:
        raise ToolError("MC_TableInit_sched failed: %s\n%s" % (res["violated"], res["out"][-2000:]))
    views = set()
    for line in res["out"].splitlines():
        if line.startswith('<<"HOLD", "'):
            views.add(json.loads(line[len('<<"HOLD", '):-2]))
    scen = {}
    for v in views:
        d = json.loads(v)
        hold = []
        for st in d["stks"]:
            at = "begin" if st["fresh"] else ("end" if st["spent"] else None)
            if at is None:
                hold = None
                break
            hold.append((st["touch"], st["hold"], at))
        if hold is None:
            continue
        key = (tuple(sorted(hold)), tuple(sorted(x[1] for x in d["next"])))
        done = sorted(d["done"])
        if key not in scen or len(done) < len(scen[key]):
            scen[key] = done
    T = ctx.thorough
    out = []
    n_pair = n_pub = n_full = 0
    seen_pairs = set()
    for (hold, arr), done in sorted(scen.items()):
        holders = [{"touch": h[0], "hold": h[1], "at": h[2]} for h in hold]
        # (P) two or more running initialisers, no arrivals: tight races right after the release
        if len(hold) >= 2 and hold not in seen_pairs:
            seen_pairs.add(hold)
            all_begin = all(h[2] == "begin" for h in hold)
            rep = (6000 if T else 1500) if (all_begin and len(hold) == 2) else (600 if T else 100)
            out.append({"fast": True, "done": done, "holders": holders, "arrivals": [], "repeat": rep})
            n_pair += 1
    for (hold, arr), done in sorted(scen.items()):
        # (Q) one initialiser about to publish, many threads arriving at that very table
        if len(hold) == 1 and hold[0][2] == "end" and hold[0][0] == hold[0][1] and arr and all(a == hold[0][0] for a in arr):
            holders = [{"touch": hold[0][0], "hold": hold[0][1], "at": "end"}]
            key = ("Q", hold[0][0])
            if key in seen_pairs:
                continue
            seen_pairs.add(key)
            out.append({"fast": True, "done": done, "holders": holders, "arrivals": [hold[0][0]] * 12, "repeat": 400 if T else 60})
            n_pub += 1
    # (C) the initial state itself: many threads make their first touch of the same table at the same instant (the race to
    #     claim an initialisation), then use the table: whole processes with results compared
    n_claim = 0
    tables = sorted({json.loads(l)["table"] for l in open(deps) if '"table"' in l})
    for tb in tables:
        out.append({"fast": False, "done": [], "holders": [], "arrivals": [tb] * 16, "repeat": 300 if T else 40})
        n_claim += 1
    # (F) the states as they are, whole processes with results compared (a seeded sample in the quick tier)
    keys = sorted(scen)
    rnd = __import__("random").Random(int(ctx.seed))
    sample = keys if T else rnd.sample(keys, min(len(keys), 120))
    for (hold, arr) in sample:
        out.append({"fast": False, "done": scen[(hold, arr)], "holders": [{"touch": h[0], "hold": h[1], "at": h[2]} for h in hold],
                    "arrivals": list(arr), "repeat": 2 if T else 1})
        n_full += 1
    sc_path = ctx.path("gated_scenarios.ndjson")
    with open(sc_path, "w") as f:
        for o in out:
            f.write(json.dumps(o) + "\n")
    gtrace = ctx.path("gated.ndjson")
    rc, info, outp = harness(["gated", "--scenarios", sc_path, "--out", gtrace, "--seed", ctx.seed, "--par", 8, "--child-timeout", 6], timeout=7200)
    ctx.evaluations += info["events"]
    r = tlc_trace_seq("Trace_TableInit", "Trace_TableInit.cfg", gtrace, extra_env={"DEPS": deps})
    ctx.states += r["states"]
    ctx.transitions += r["transitions"]
    log("[gated] %d model states -> %d drivable; %d pair + %d publish + %d claim + %d full scenarios, %d processes, %d hangs, %d unreached; accepted=%s" % (
        len(views), len(scen), n_pair, n_pub, n_claim, n_full, info["procs"], info["hangs"], info["unreached"], r["accepted"]))
    ctx.extra["gated"] = {"model_states_with_running_initialiser": len(views), "drivable_states": len(scen), "pair_scenarios": n_pair,
                          "publish_scenarios": n_pub, "claim_scenarios": n_claim, "full_scenarios": n_full, "processes": info["procs"], "unreached": info["unreached"]}
    if r["accepted"]:
        ctx.traces += info["procs"]
        ctx.distinct += info["procs"]
    else:
        lines = open(gtrace).read().splitlines()
        at = r["matched"] or 0
        start = at
        while start > 0 and '"ev":"proc"' not in lines[start]:
            start -= 1
        p = save_replay(ctx.prop, "gated-violation.ndjson", "\n".join(lines[start:at + 1]))
        ctx.violation("gated schedule: process event rejected by Trace_TableInit at line %d: %s (process: %s)" % (at + 1, short(lines[at], 300), short(lines[start], 400)),
                      p, {"source": "gated"})
