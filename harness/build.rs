// Ports /repo/src/engine/engine_neon.rs to this host at build time: the Neon
// engine's source is compiled against an emulation of the seven intrinsics it
// uses (src/neon_emu.rs).  No repository change; an edit to engine_neon.rs is
// picked up by the next build.
use std::{env, fs, path::PathBuf};

fn main() {
    let manifest_dir = PathBuf::from(env::var("CARGO_MANIFEST_DIR").unwrap());
    let repo = fs::read_to_string(manifest_dir.join("repo_path.txt"))
        .expect("repo_path.txt (written by bin/check)")
        .trim()
        .to_string();
    let src_path = PathBuf::from(&repo).join("src/engine/engine_neon.rs");
    println!("cargo:rerun-if-changed={}", src_path.display());
    println!("cargo:rerun-if-changed={}", manifest_dir.join("repo_path.txt").display());
    println!("cargo:rerun-if-changed=build.rs");
    let src = fs::read_to_string(&src_path).expect("engine_neon.rs");

    let mut out = String::new();
    let mut skip_next = false;
    for line in src.lines() {
        let t = line.trim();
        if skip_next {
            // statement guarded by the verification feature (ISA counter): dropped
            skip_next = false;
            continue;
        }
        if t == "#[cfg(feature = \"verif-hooks\")]" {
            skip_next = true;
            continue;
        }
        if t == "use std::arch::aarch64::*;" {
            out.push_str("use crate::neon_emu::*;\n");
            continue;
        }
        if t.starts_with("#[target_feature(enable = \"neon\")]") {
            continue;
        }
        if t.starts_with("///") || t.starts_with("//!") {
            continue;
        }
        let mut l = line.replace("crate::engine::", "reed_solomon_simd::engine::");
        // vshrq_n_u8::<N>(x)  ->  vshrq_n_u8(x, N)
        while let Some(p) = l.find("vshrq_n_u8::<") {
            let rest = &l[p + "vshrq_n_u8::<".len()..];
            let gt = rest.find('>').unwrap();
            let n = rest[..gt].to_string();
            let after = &rest[gt + 1..];
            assert!(after.starts_with('('));
            let close = after.find(')').unwrap();
            let arg = after[1..close].to_string();
            let tail = after[close + 1..].to_string();
            l = format!("{}vshrq_n_u8({}, {}){}", &l[..p], arg, n, tail);
        }
        out.push_str(&l);
        out.push('\n');
    }
    let dest = PathBuf::from(env::var("OUT_DIR").unwrap()).join("engine_neon_port.rs");
    fs::write(dest, out).unwrap();
}
