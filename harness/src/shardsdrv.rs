//! Driver "shards": replays call scripts on the real `engine::ShardsRefMut` and the XOR helpers
//! `engine::utils::{xor, xor_within}` and records, after every call, what every chunk of the
//! underlying buffer holds.  Scripts come from TLC (MC_Shards prints one per behaviour) and from a
//! seeded random driver over larger shapes.  Validated by Trace_Shards.tla.
//!
//! Chunk p of a fresh buffer has bit p set and nothing else, so the bytes of a chunk are the set of
//! atoms XORed into it.  No view outlives a call: for every call the root view is rebuilt from the
//! buffer and the split path is descended again, so the buffer can be read between calls.

use crate::util::{self, arr_json, Obj, Trace};
use crate::Args;
use rand::Rng;
use reed_solomon_simd::engine::{utils, ShardsRefMut};
use serde_json::Value;
use std::ops::Bound;
use std::panic::{catch_unwind, AssertUnwindSafe};

#[derive(Clone, Debug)]
enum Op {
    Zero { sk: String, a: usize, ek: String, b: usize },
    XorWithin { x: usize, y: usize, c: usize },
    Dist2 { pos: usize, dist: usize, ab: bool },
    Dist4 { pos: usize, dist: usize },
    Index { i: usize },
    IndexZero { i: usize },
    Query,
    Split { mid: usize, second: bool },
    Pop,
}

fn fresh(total: usize) -> Vec<[u8; 64]> {
    (0..total)
        .map(|p| {
            let mut c = [0u8; 64];
            c[p / 8] = 1 << (p % 8);
            c
        })
        .collect()
}

fn atoms(c: &[u8; 64]) -> String {
    let mut v = Vec::new();
    for (i, b) in c.iter().enumerate() {
        for bit in 0..8 {
            if b & (1 << bit) != 0 {
                v.push((i * 8 + bit).to_string());
            }
        }
    }
    arr_json(&v)
}

fn flat_json(buf: &[[u8; 64]]) -> String {
    arr_json(&buf.iter().map(atoms).collect::<Vec<_>>())
}

/// Runs `f` on the view reached from `v` by the split path.
fn with_view<R>(v: &mut ShardsRefMut, path: &[(usize, bool)], f: &mut dyn FnMut(&mut ShardsRefMut) -> R) -> R {
    match path.split_first() {
        None => f(v),
        Some(((mid, second), rest)) => {
            let (mut a, mut b) = v.split_at_mut(*mid);
            with_view(if *second { &mut b } else { &mut a }, rest, f)
        }
    }
}

fn bound(kind: &str, v: usize) -> Bound<usize> {
    match kind {
        "incl" => Bound::Included(v),
        "excl" => Bound::Excluded(v),
        _ => Bound::Unbounded,
    }
}

/// Extra fields of the event (what the call returned).
fn apply(v: &mut ShardsRefMut, op: &Op) -> String {
    match op {
        Op::Zero { sk, a, ek, b } => {
            // the ordinary range syntaxes where they exist, the general pair of bounds otherwise
            match (sk.as_str(), ek.as_str()) {
                ("incl", "excl") => v.zero(*a..*b),
                ("incl", "incl") => v.zero(*a..=*b),
                ("incl", "unb") => v.zero(*a..),
                ("unb", "excl") => v.zero(..*b),
                ("unb", "incl") => v.zero(..=*b),
                ("unb", "unb") => v.zero(..),
                _ => v.zero((bound(sk, *a), bound(ek, *b))),
            }
            String::new()
        }
        Op::XorWithin { x, y, c } => {
            utils::xor_within(v, *x, *y, *c);
            String::new()
        }
        Op::Dist2 { pos, dist, ab } => {
            let (a, b) = v.dist2_mut(*pos, *dist);
            if *ab {
                utils::xor(a, b);
            } else {
                utils::xor(b, a);
            }
            String::new()
        }
        Op::Dist4 { pos, dist } => {
            let (a, b, c, d) = v.dist4_mut(*pos, *dist);
            utils::xor(b, a);
            utils::xor(c, b);
            utils::xor(d, c);
            String::new()
        }
        Op::Index { i } => {
            let s: &[[u8; 64]] = &v[*i];
            format!("\"shard\":{}", arr_json(&s.iter().map(atoms).collect::<Vec<_>>()))
        }
        Op::IndexZero { i } => {
            v[*i].fill([0u8; 64]);
            String::new()
        }
        Op::Query => format!("\"len\":{},\"empty\":{}", v.len(), v.is_empty()),
        Op::Split { .. } | Op::Pop => unreachable!(),
    }
}

fn op_obj(op: &Op) -> Obj {
    match op {
        Op::Zero { sk, a, ek, b } => Obj::new().str("ev", "zero").str("sk", sk).us("a", *a).str("ek", ek).us("b", *b),
        Op::XorWithin { x, y, c } => Obj::new().str("ev", "xor_within").us("x", *x).us("y", *y).us("c", *c),
        Op::Dist2 { pos, dist, ab } => Obj::new().str("ev", "dist2").us("pos", *pos).us("dist", *dist).str("dir", if *ab { "ab" } else { "ba" }),
        Op::Dist4 { pos, dist } => Obj::new().str("ev", "dist4").us("pos", *pos).us("dist", *dist),
        Op::Index { i } => Obj::new().str("ev", "index").us("i", *i),
        Op::IndexZero { i } => Obj::new().str("ev", "index_zero").us("i", *i),
        Op::Query => Obj::new().str("ev", "query"),
        Op::Split { mid, second } => Obj::new().str("ev", "split").us("mid", *mid).str("side", if *second { "second" } else { "first" }),
        Op::Pop => Obj::new().str("ev", "pop"),
    }
}

/// One script on a fresh buffer; returns the number of events written.
fn run_script(trace: &mut Trace, total: usize, count: usize, len: usize, ops: &[Op]) -> usize {
    let mut buf = fresh(total);
    let mut path: Vec<(usize, bool)> = Vec::new();
    let r = catch_unwind(AssertUnwindSafe(|| {
        let v = ShardsRefMut::new(count, len, &mut buf);
        (v.len(), v.is_empty())
    }));
    let mut o = Obj::new().str("ev", "new").us("total", total).us("count", count).us("len", len);
    if r.is_err() {
        o = o.raw("panic", "true");
    }
    trace.line(&o.raw("flat", &flat_json(&buf)).done());
    let mut n = 1;
    for op in ops {
        let mut o = op_obj(op);
        let res = catch_unwind(AssertUnwindSafe(|| -> String {
            let mut root = ShardsRefMut::new(count, len, &mut buf);
            match op {
                Op::Split { mid, second } => {
                    path.push((*mid, *second));
                    let l = with_view(&mut root, &path, &mut |v| v.len());
                    format!("\"len\":{l}")
                }
                Op::Pop => {
                    path.pop();
                    let l = with_view(&mut root, &path, &mut |v| v.len());
                    format!("\"len\":{l}")
                }
                _ => with_view(&mut root, &path, &mut |v| apply(v, op)),
            }
        }));
        match res {
            Ok(extra) => {
                if !extra.is_empty() {
                    o = o.fields(&extra);
                }
            }
            Err(p) => o = o.str("panic", &util::panic_message(&*p)),
        }
        trace.line(&o.raw("flat", &flat_json(&buf)).done());
        n += 1;
    }
    n
}

fn parse_op(v: &Value) -> Op {
    let u = |k: &str| v[k].as_u64().unwrap_or(0) as usize;
    match v["op"].as_str().unwrap_or("") {
        "zero" => Op::Zero { sk: v["sk"].as_str().unwrap().to_string(), a: u("a"), ek: v["ek"].as_str().unwrap().to_string(), b: u("b") },
        "xor_within" => Op::XorWithin { x: u("x"), y: u("y"), c: u("c") },
        "dist2" => Op::Dist2 { pos: u("pos"), dist: u("dist"), ab: v["dir"] == "ab" },
        "dist4" => Op::Dist4 { pos: u("pos"), dist: u("dist") },
        "index" => Op::Index { i: u("i") },
        "index_zero" => Op::IndexZero { i: u("i") },
        "query" => Op::Query,
        "split" => Op::Split { mid: u("mid"), second: v["side"] == "second" },
        "pop" => Op::Pop,
        other => panic!("unknown op {other}"),
    }
}

// ----------------------------------------------------------------------
// legality of a call on a view of (count, len): the slice operations in the body succeed
// (the same conditions as Shards.tla; an op the driver thinks legal that panics is recorded and rejected)

fn legal(count: usize, len: usize, depth: usize, op: &Op) -> bool {
    let total = count * len;
    match op {
        Op::Zero { sk, a, ek, b } => {
            let s = match sk.as_str() { "incl" => a * len, "excl" => (a + 1) * len, _ => 0 };
            let e = match ek.as_str() { "incl" => (b + 1) * len, "excl" => b * len, _ => total };
            s <= e && e <= total
        }
        Op::XorWithin { x, y, c } => {
            if x < y {
                y * len <= total && (x + c) * len <= y * len && c * len <= total - y * len
            } else {
                x * len <= total && c * len <= total - x * len && (y + c) * len <= x * len
            }
        }
        Op::Dist2 { pos, dist, .. } => (pos + dist + 1) * len <= total && len <= dist * len,
        Op::Dist4 { pos, dist } => (pos + 3 * dist + 1) * len <= total && len <= dist * len,
        Op::Index { i } | Op::IndexZero { i } => (i + 1) * len <= total,
        Op::Query => true,
        Op::Split { mid, .. } => *mid <= count,
        Op::Pop => depth > 0,
    }
}

fn random_op(rng: &mut impl Rng, count: usize) -> Op {
    let a = |rng: &mut dyn rand::RngCore| -> usize { rng.gen_range(0..=count + 1) };
    match rng.gen_range(0..20) {
        0..=2 => {
            let kinds = ["incl", "excl", "unb"];
            Op::Zero { sk: kinds[rng.gen_range(0..3)].to_string(), a: a(rng), ek: kinds[rng.gen_range(0..3)].to_string(), b: a(rng) }
        }
        3..=7 => Op::XorWithin { x: a(rng), y: a(rng), c: rng.gen_range(0..=count / 2 + 1) },
        8..=10 => Op::Dist2 { pos: a(rng), dist: rng.gen_range(0..=count), ab: rng.gen_bool(0.5) },
        11..=13 => Op::Dist4 { pos: a(rng), dist: rng.gen_range(0..=count / 3 + 1) },
        14 => Op::Index { i: a(rng) },
        15 => Op::IndexZero { i: a(rng) },
        16 => Op::Query,
        17 | 18 => Op::Split { mid: a(rng), second: rng.gen_bool(0.5) },
        _ => Op::Pop,
    }
}

pub fn main(args: &Args) -> i32 {
    let mut trace = Trace::create(args.req("out"));
    let seed = args.num("seed", 1);
    let mut scripts = 0usize;
    let mut events = 0usize;
    // (1) scripts printed by TLC: one JSON array per line, first element the "new" record
    if let Some(path) = args.get("scripts") {
        let every = args.num("every", 1).max(1) as usize;
        let text = std::fs::read_to_string(path).expect("scripts file");
        for (li, line) in text.lines().enumerate() {
            if line.trim().is_empty() || (li + seed as usize) % every != 0 {
                continue;
            }
            let v: Value = serde_json::from_str(line).expect("script json");
            let arr = v.as_array().expect("script array");
            let u = |k: &str| arr[0][k].as_u64().unwrap() as usize;
            let ops: Vec<Op> = arr[1..].iter().map(parse_op).collect();
            events += run_script(&mut trace, u("total"), u("count"), u("len"), &ops);
            scripts += 1;
        }
    }
    // (2) seeded random walks over larger shapes (legal calls only)
    let walks = args.num("walks", 0) as usize;
    let steps = args.num("steps", 30) as usize;
    let mut rng = util::rng(seed, 0x5a4d);
    for _ in 0..walks {
        let len = *[0usize, 1, 1, 2, 2, 3, 4, 5, 17].get(rng.gen_range(0..9)).unwrap();
        let maxc = if len == 0 { 20 } else { (500 / len).min(40) };
        let count = if rng.gen_bool(0.1) { rng.gen_range(0..=2) } else { rng.gen_range(0..=maxc) };
        let total = count * len + rng.gen_range(0..3);
        let mut ops = Vec::new();
        let mut stack = vec![count];
        while ops.len() < steps {
            let cur = *stack.last().unwrap();
            let op = random_op(&mut rng, cur);
            if !legal(cur, len, stack.len() - 1, &op) {
                continue;
            }
            match &op {
                Op::Split { mid, second } => stack.push(if *second { cur - mid } else { *mid }),
                Op::Pop => {
                    stack.pop();
                }
                _ => {}
            }
            ops.push(op);
        }
        events += run_script(&mut trace, total, count, len, &ops);
        scripts += 1;
    }
    trace.finish();
    println!("{{\"events\":{events},\"scripts\":{scripts}}}");
    0
}
