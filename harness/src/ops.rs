//! Whole-round helpers on top of the DUT enums: one encode round, one decode round,
//! on a given (kind, engine), with poison on, every call under catch_unwind.

use crate::dut::{DecObj, EncObj, Kind};
use crate::engines::MkEngine;
use crate::util;
use std::collections::BTreeMap;
use std::panic::{catch_unwind, AssertUnwindSafe};

/// Working memory of objects under test is overwritten with a never-repeating stream at every resize - except for
/// every third object, which keeps the zero-filled memory a freshly constructed production object has (a defect
/// that only shows when the unused lanes of the final block are zero would otherwise be masked by the poison).
pub fn poison_on(seed: u64) {
    static N: std::sync::atomic::AtomicU64 = std::sync::atomic::AtomicU64::new(0);
    let n = N.fetch_add(1, std::sync::atomic::Ordering::Relaxed);
    reed_solomon_simd::verif::set_poison(if n % 3 == 2 { 0 } else { seed | 1 });
}

/// One encode round on a fresh object of (kind, E). `kind = None` means the one-shot function.
pub fn encode_round<E: MkEngine>(
    kind: Option<Kind>,
    k: usize,
    r: usize,
    originals: &[Vec<u8>],
) -> Result<Vec<Vec<u8>>, String> {
    let res = catch_unwind(AssertUnwindSafe(|| -> Result<Vec<Vec<u8>>, String> {
        match kind {
            None => reed_solomon_simd::encode(k, r, originals).map_err(|e| util::err_json(&e)),
            Some(kind) => {
                let sb = originals.first().map_or(0, Vec::len);
                let mut e = EncObj::<E>::new(kind, k, r, sb).map_err(|e| util::err_json(&e))?;
                for o in originals {
                    e.add(o).map_err(|e| util::err_json(&e))?;
                }
                let res = e.encode().map_err(|e| util::err_json(&e))?;
                let out: Vec<Vec<u8>> = res.recovery_iter().map(<[u8]>::to_vec).collect();
                Ok(out)
            }
        }
    }));
    match res {
        Ok(x) => x,
        Err(p) => Err(util::panic_json(&util::panic_message(&*p))),
    }
}

/// Several encode rounds on ONE object of (kind, E), no reset in between; the recovery shards of the last round.
pub fn encode_rounds<E: MkEngine>(kind: Kind, k: usize, r: usize, rounds: &[&[Vec<u8>]]) -> Result<Vec<Vec<u8>>, String> {
    let res = catch_unwind(AssertUnwindSafe(|| -> Result<Vec<Vec<u8>>, String> {
        let sb = rounds[0].first().map_or(0, Vec::len);
        let mut e = EncObj::<E>::new(kind, k, r, sb).map_err(|e| util::err_json(&e))?;
        let mut out = Vec::new();
        for originals in rounds {
            for o in *originals {
                e.add(o).map_err(|e| util::err_json(&e))?;
            }
            let res = e.encode().map_err(|e| util::err_json(&e))?;
            out = res.recovery_iter().map(<[u8]>::to_vec).collect();
        }
        Ok(out)
    }));
    match res {
        Ok(x) => x,
        Err(p) => Err(util::panic_json(&util::panic_message(&*p))),
    }
}

/// One decode round on a fresh object.
pub fn decode_round<E: MkEngine>(
    kind: Option<Kind>,
    k: usize,
    r: usize,
    sb: usize,
    originals: &[(usize, &[u8])],
    recovery: &[(usize, &[u8])],
) -> Result<BTreeMap<usize, Vec<u8>>, String> {
    let res = catch_unwind(AssertUnwindSafe(
        || -> Result<BTreeMap<usize, Vec<u8>>, String> {
            match kind {
                None => reed_solomon_simd::decode(
                    k,
                    r,
                    originals.iter().map(|(i, s)| (*i, *s)),
                    recovery.iter().map(|(i, s)| (*i, *s)),
                )
                .map(|m| m.into_iter().collect())
                .map_err(|e| util::err_json(&e)),
                Some(kind) => {
                    let mut d =
                        DecObj::<E>::new(kind, k, r, sb).map_err(|e| util::err_json(&e))?;
                    // interleave deterministically: originals first then recovery is the common
                    // order; callers wanting other orders use the replay machinery
                    for (i, s) in originals {
                        d.add_original(*i, s).map_err(|e| util::err_json(&e))?;
                    }
                    for (i, s) in recovery {
                        d.add_recovery(*i, s).map_err(|e| util::err_json(&e))?;
                    }
                    let res = d.decode().map_err(|e| util::err_json(&e))?;
                    let out: BTreeMap<usize, Vec<u8>> = res
                        .restored_original_iter()
                        .map(|(i, s)| (i, s.to_vec()))
                        .collect();
                    Ok(out)
                }
            }
        },
    ));
    match res {
        Ok(x) => x,
        Err(p) => Err(util::panic_json(&util::panic_message(&*p))),
    }
}

pub fn kind_name(kind: Option<Kind>) -> &'static str {
    match kind {
        None => "oneshot",
        Some(k) => k.name(),
    }
}

pub fn parse_kind(s: &str) -> Option<Kind> {
    if s == "oneshot" {
        None
    } else {
        Some(Kind::parse(s))
    }
}

/// Kinds that can run configuration (k, r) at the given dedicated rate:
/// the dedicated codec of that rate, and the default-rate family when `default_rate == rate`.
pub fn kinds_for(rate: &str, default_rate: &str, engine: &str) -> Vec<Option<Kind>> {
    let mut v = vec![Some(if rate == "high" { Kind::High } else { Kind::Low })];
    if default_rate == rate {
        v.push(Some(Kind::Default));
        if engine == "default" {
            v.push(Some(Kind::Rs));
            v.push(None);
        }
    }
    v
}

/// The rate the default codec chose for (k, r): asked of the code (hook H5), never assumed.
pub fn default_rate_of(k: usize, r: usize) -> Option<&'static str> {
    match reed_solomon_simd::rate::verif_use_high_rate(k, r) {
        Ok(true) => Some("high"),
        Ok(false) => Some("low"),
        Err(_) => None,
    }
}
