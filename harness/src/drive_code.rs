//! Driver "code": executes encode / decode rounds on the real code and records them as
//! events for Trace_Code.tla, which evaluates the closed-form code over GF(2^16).
//!
//! Families (--family): c02 (recovery = closed form), c13 (linearity), c04 (every even size,
//! every slot), c01 (decode restores the originals).

use crate::dut::Kind;
use crate::engines::{usable_engines, MkEngine};
use crate::ops::{self, decode_round, encode_round, kind_name};
use crate::util::{self, arr_json, bytes_json, Obj, Trace};
use crate::{with_engine, Args};
use rand::seq::SliceRandom;
use rand::Rng;
use std::collections::BTreeSet;

pub struct Ctx {
    pub seed: u64,
    pub trace: Trace,
    pub thorough: bool,
    pub engines: Vec<&'static str>,
    pub counter: u64,
    pub group: Option<i64>,
    /// data of an earlier round: the next `enc_event` runs it first on the same object (no reset in between)
    pub prior: Option<Vec<Vec<u8>>>,
    pub stats: std::collections::BTreeMap<String, u64>,
}

impl Ctx {
    fn bump(&mut self, k: &str) {
        *self.stats.entry(k.to_string()).or_insert(0) += 1;
    }
    fn next_id(&mut self) -> u64 {
        self.counter += 1;
        self.counter
    }
}

fn shards_json(v: &[Vec<u8>]) -> String {
    let items: Vec<String> = v.iter().map(|s| bytes_json(s)).collect();
    arr_json(&items)
}

pub fn originals(seed: u64, tag: u64, k: usize, sb: usize) -> Vec<Vec<u8>> {
    (0..k)
        .map(|i| util::payload(seed, tag, i as u64, sb))
        .collect()
}

/// The dedicated rate a (kind) object used for (k, r), as reported by the code itself.
fn rate_used(kind: Option<Kind>, k: usize, r: usize) -> &'static str {
    match kind {
        Some(Kind::High) => "high",
        Some(Kind::Low) => "low",
        _ => ops::default_rate_of(k, r).unwrap_or("none"),
    }
}

/// Recovery indexes logged for a large round: both ends, chunk edges and a seeded sample.
fn sample_js(r: usize, m: usize, seed: u64, n: usize) -> Vec<usize> {
    let mut s: BTreeSet<usize> = [0, 1, r - 1, r.saturating_sub(2), m - 1, m, m + 1, r / 2]
        .into_iter()
        .filter(|j| *j < r)
        .collect();
    let mut rng = util::rng(seed, 77);
    while s.len() < n.min(r) {
        s.insert(rng.gen_range(0..r));
    }
    s.into_iter().collect()
}

/// Records one encode round. Returns the trace line number (1-based) of the event.
/// Dense originals unless `nz` lists the only non-zero originals; recovery shards are logged
/// completely when small, else on a sample of indexes ("recj").
#[allow(clippy::too_many_arguments)]
pub fn enc_event(
    ctx: &mut Ctx,
    engine: &str,
    kind: Option<Kind>,
    k: usize,
    r: usize,
    orig: &[Vec<u8>],
    nz: Option<&[usize]>,
    all_slots: bool,
) -> (usize, Option<Vec<Vec<u8>>>) {
    ops::poison_on(ctx.seed ^ ctx.counter);
    let prior = ctx.prior.take();
    let res = match (&prior, kind) {
        (Some(p), Some(kd)) => with_engine!(engine, E, { ops::encode_rounds::<E>(kd, k, r, &[p.as_slice(), orig]) }),
        _ => with_engine!(engine, E, { encode_round::<E>(kind, k, r, orig) }),
    };
    let sb = orig.first().map_or(0, Vec::len);
    let id = ctx.next_id();
    let rate = rate_used(kind, k, r);
    let mut o = Obj::new()
        .str("ev", "enc")
        .int("id", id as i64)
        .str("impl", "crate")
        .str("kind", kind_name(kind))
        .str("engine", engine)
        .str("rate", rate)
        .us("k", k)
        .us("r", r)
        .us("sb", sb)
        .int("hint", (ctx.seed.wrapping_mul(31).wrapping_add(id * 7) % 1000) as i64)
        .bool("all", all_slots);
    if let Some(g) = ctx.group {
        o = o.int("g", g);
    }
    if let Some(nz) = nz {
        let dense: Vec<Vec<u8>> = nz.iter().map(|i| orig[*i].clone()).collect();
        o = o.uss("nz", nz.iter()).raw("orignz", &shards_json(&dense));
    } else {
        o = o.raw("orig", &shards_json(orig));
    }
    let out = match res {
        Ok(rec) => {
            if rec.len() * sb.max(1) <= 8192 || rec.len() != r {
                o = o.raw("rec", &shards_json(&rec));
            } else {
                let m = if rate == "high" {
                    r.next_power_of_two()
                } else {
                    k.next_power_of_two()
                };
                let items: Vec<String> = sample_js(r, m, ctx.seed, 48)
                    .into_iter()
                    .map(|j| format!("[{},{}]", j, bytes_json(&rec[j])))
                    .collect();
                o = o.raw("recj", &arr_json(&items));
            }
            Some(rec)
        }
        Err(f) => {
            o = o.raw("fail", &f);
            None
        }
    };
    ctx.trace.line(&o.done());
    ctx.bump(&format!("enc/{}/{}", kind_name(kind), engine));
    (ctx.trace.lines, out)
}

/// Same round on the ancestor crate reed-solomon-16 0.1.0 (shard sizes that are multiples of 64).
fn enc_event_rs16(ctx: &mut Ctx, k: usize, r: usize, orig: &[Vec<u8>]) {
    let sb = orig[0].len();
    let res = std::panic::catch_unwind(|| reed_solomon_16::encode(k, r, orig));
    let id = ctx.next_id();
    let mut o = Obj::new()
        .str("ev", "enc")
        .int("id", id as i64)
        .str("impl", "rs16-0.1.0")
        .str("kind", "oneshot")
        .str("engine", "rs16")
        .str("rate", rate_used(None, k, r))
        .us("k", k)
        .us("r", r)
        .us("sb", sb)
        .int("hint", (id * 13 % 1000) as i64)
        .bool("all", false)
        .raw("orig", &shards_json(orig));
    match res {
        Ok(Ok(rec)) => o = o.raw("rec", &shards_json(&rec)),
        Ok(Err(e)) => o = o.raw("fail", &Obj::new().str("err", &format!("{e:?}")).done()),
        Err(_) => o = o.raw("fail", &util::panic_json("rs16 panic")),
    }
    ctx.trace.line(&o.done());
    ctx.bump("enc/rs16");
}

pub fn high_ok(k: usize, r: usize) -> bool {
    crate::dut::supports_rate("high", k, r)
}
pub fn low_ok(k: usize, r: usize) -> bool {
    crate::dut::supports_rate("low", k, r)
}

/// Envelope-boundary and chunk-edge configurations (rate, k, r).
pub fn boundary_configs(thorough: bool) -> Vec<(&'static str, usize, usize)> {
    let mut v = Vec::new();
    let ns: Vec<u32> = if thorough {
        (0..16).collect()
    } else {
        vec![0, 12, 15]
    };
    for n in ns {
        let p = 1usize << n;
        v.push(("high", 65536 - p, p));
        v.push(("low", p, 65536 - p));
    }
    v.push(("high", 32768, 32768));
    v.push(("low", 32768, 32768));
    // chunk-multiple edges at moderate size
    for m in [4usize, 64, 1024] {
        for (k, r) in [
            (m, m),
            (m + 1, m),
            (2 * m, m),
            (2 * m + 1, m - 1),
            (3 * m - 1, m),
            (3 * m + 1, m / 2 + 1),
        ] {
            if high_ok(k, r) {
                v.push(("high", k, r));
            }
            if low_ok(r, k) {
                v.push(("low", r, k));
            }
        }
    }
    v
}

const SIZES: [usize; 12] = [2, 4, 6, 30, 32, 34, 62, 64, 66, 126, 128, 130];

fn family_c02(ctx: &mut Ctx) {
    let engines = ctx.engines.clone();
    let mut rng = util::rng(ctx.seed, 2);
    // (1) every (k, r) <= 16 x 16 of both rates
    let mut idx = 0usize;
    for rate in ["high", "low"] {
        for k in 1..=16usize {
            for r in 1..=16usize {
                if !crate::dut::supports_rate(rate, k, r) {
                    continue;
                }
                idx += 1;
                let dr = ops::default_rate_of(k, r).unwrap_or("none");
                let combos: Vec<(&str, Option<Kind>)> = if ctx.thorough {
                    let mut c = Vec::new();
                    for e in &engines {
                        for kd in ops::kinds_for(rate, dr, e) {
                            c.push((*e, kd));
                        }
                    }
                    c
                } else {
                    let e = engines[(idx + ctx.seed as usize) % engines.len()];
                    let kinds = ops::kinds_for(rate, dr, e);
                    vec![(e, kinds[(idx / engines.len()) % kinds.len()])]
                };
                for (e, kd) in combos {
                    let sb = *[2usize, 2, 4, 6, 34, 66].choose(&mut rng).unwrap();
                    let tag = ctx.counter;
                    let orig = originals(ctx.seed, tag, k, sb);
                    enc_event(ctx, e, kd, k, r, &orig, None, false);
                }
            }
        }
    }
    // (1b) the code is a function of the data alone: a second (third) round on the same object, no reset in between
    for (ci, (rate, k, r, sb)) in [("low", 3usize, 5usize, 2usize), ("low", 5, 9, 66), ("low", 11, 40, 6), ("low", 100, 300, 2), ("low", 6, 3, 64), ("high", 5, 3, 130),
        ("high", 10, 8, 2), ("high", 3, 8, 66), ("high", 300, 100, 2), ("low", 2, 3, 64), ("high", 17, 7, 34), ("low", 7, 17, 192)].into_iter().enumerate()
    {
        if !crate::dut::supports_rate(rate, k, r) {
            continue;
        }
        let dr = ops::default_rate_of(k, r).unwrap_or("none");
        for (ei, e) in engines.iter().enumerate() {
            if !ctx.thorough && (ei + ci + ctx.seed as usize) % 2 == 0 {
                continue;
            }
            let kinds: Vec<Option<Kind>> = ops::kinds_for(rate, dr, e).into_iter().filter(Option::is_some).collect();
            let kd = kinds[(ei + ci) % kinds.len()];
            let first = originals(ctx.seed, 0x2B00 + ctx.counter, k, sb);
            let orig = originals(ctx.seed, 0x2B80 + ctx.counter, k, sb);
            ctx.prior = Some(first);
            enc_event(ctx, e, kd, k, r, &orig, None, false);
        }
    }
    // (2) random (k, r) up to 300, log-uniform
    let n = if ctx.thorough { 400 } else { 40 };
    for _ in 0..n {
        let k = (2f64.powf(rng.gen_range(0.0..8.3)) as usize).clamp(1, 300);
        let r = (2f64.powf(rng.gen_range(0.0..8.3)) as usize).clamp(1, 300);
        let rate = if rng.gen_bool(0.5) { "high" } else { "low" };
        if !crate::dut::supports_rate(rate, k, r) {
            continue;
        }
        let dr = ops::default_rate_of(k, r).unwrap_or("none");
        let e = *engines.choose(&mut rng).unwrap();
        let kinds = ops::kinds_for(rate, dr, e);
        let kd = *kinds.choose(&mut rng).unwrap();
        let sb = *[2usize, 4, 62, 64, 66].choose(&mut rng).unwrap();
        let orig = originals(ctx.seed, ctx.counter, k, sb);
        enc_event(ctx, e, kd, k, r, &orig, None, false);
    }
    // (2b) multi-block shards (structured payloads: zero blocks inside non-zero shards) on every engine
    for (ei, e) in engines.iter().enumerate() {
        for (rate, k, r, sb) in [("high", 6usize, 2usize, 128usize), ("low", 3, 5, 192), ("high", 9, 4, 256), ("low", 4, 9, 130), ("high", 5, 3, 1026), ("low", 3, 5, 1150)] {
            let dr = ops::default_rate_of(k, r).unwrap_or("none");
            let kinds = ops::kinds_for(rate, dr, e);
            let kd = kinds[ei % kinds.len()];
            let orig = originals(ctx.seed, 0x5B00 + ctx.counter, k, sb);
            enc_event(ctx, e, kd, k, r, &orig, None, true);
        }
    }
    // (3) boundary configurations: random data (sampled recovery indexes) and unit vectors (all of them)
    for (bi, (rate, k, r)) in boundary_configs(ctx.thorough).into_iter().enumerate() {
        let dr = ops::default_rate_of(k, r).unwrap_or("none");
        let m = if rate == "high" {
            r.next_power_of_two()
        } else {
            k.next_power_of_two()
        };
        // dense random data (all originals logged) for small k or a few large ones
        if k <= 4096 || ctx.thorough || bi < 2 {
            let e = *engines.choose(&mut rng).unwrap();
            let kd = *ops::kinds_for(rate, dr, e).choose(&mut rng).unwrap();
            let orig = originals(ctx.seed, ctx.counter, k, 2);
            enc_event(ctx, e, kd, k, r, &orig, None, false);
        }
        // sparse data: a handful of non-zero originals spread over chunk edges
        {
            let mut nz: BTreeSet<usize> = [0, 1, m - 1, m, m + 1, 2 * m, k - 1, k / 2]
                .into_iter()
                .filter(|i| *i < k)
                .collect();
            for _ in 0..4 {
                nz.insert(rng.gen_range(0..k));
            }
            let nz: Vec<usize> = nz.into_iter().collect();
            let mut orig = vec![vec![0u8; 2]; k];
            for i in &nz {
                let v: u16 = rng.gen_range(1..=u16::MAX);
                orig[*i] = vec![v as u8, (v >> 8) as u8];
            }
            let e = *engines.choose(&mut rng).unwrap();
            let kd = *ops::kinds_for(rate, dr, e).choose(&mut rng).unwrap();
            enc_event(ctx, e, kd, k, r, &orig, Some(&nz), false);
        }
        // unit vectors: single columns of G
        let mut cols: Vec<usize> = [0, m - 1, m, k - 1, rng.gen_range(0..k)]
            .into_iter()
            .filter(|i| *i < k)
            .collect::<BTreeSet<usize>>()
            .into_iter()
            .collect();
        if !ctx.thorough {
            cols.shuffle(&mut rng);
            cols.truncate(2);
        }
        for i in cols {
            let mut orig = vec![vec![0u8; 2]; k];
            let v: u16 = rng.gen_range(1..=u16::MAX);
            orig[i] = vec![v as u8, (v >> 8) as u8];
            let e = *engines.choose(&mut rng).unwrap();
            let kd = *ops::kinds_for(rate, dr, e).choose(&mut rng).unwrap();
            enc_event(ctx, e, kd, k, r, &orig, Some(&[i]), false);
        }
    }
    // (3b) thousands of shards with multi-block / odd shard sizes: sparse data (non-zero originals at both ends, around
    //      every chunk edge and at random places), recovery shards sampled
    let nbig = if ctx.thorough { 24 } else { 6 };
    for t in 0..nbig {
        let (k, r) = match t % 6 {
            0 => (rng.gen_range(1000..5000), rng.gen_range(100..1000)),
            1 => (rng.gen_range(100..1000), rng.gen_range(1000..5000)),
            2 => (4097, 1023),
            3 => (1023, 4097),
            4 => (3 * 512 + 7, 511),
            _ => (rng.gen_range(2000..9000), rng.gen_range(2000..9000)),
        };
        let rate = if t % 2 == 0 { "high" } else { "low" };
        if !crate::dut::supports_rate(rate, k, r) {
            continue;
        }
        let dr = ops::default_rate_of(k, r).unwrap_or("none");
        let m = if rate == "high" { r.next_power_of_two() } else { k.next_power_of_two() };
        let sb = *[64usize, 66, 130, 192, 6].choose(&mut rng).unwrap();
        let mut nz: BTreeSet<usize> = [0, 1, m - 1, m, m + 1, 2 * m - 1, 2 * m, k - 2, k - 1, k / 2, (k / m) * m, ((k / m) * m).saturating_sub(1)]
            .into_iter()
            .filter(|i| *i < k)
            .collect();
        for _ in 0..6 {
            nz.insert(rng.gen_range(0..k));
        }
        let nz: Vec<usize> = nz.into_iter().collect();
        let mut orig = vec![vec![0u8; sb]; k];
        for i in &nz {
            orig[*i] = util::payload(ctx.seed, 0x3B, (*i as u64) << 8 | t as u64, sb);
        }
        let e = *engines.iter().filter(|e| **e != "naive").collect::<Vec<_>>().choose(&mut rng).unwrap();
        let kd = *ops::kinds_for(rate, dr, e).choose(&mut rng).unwrap();
        enc_event(ctx, e, kd, k, r, &orig, Some(&nz), false);
    }
    // (4) ancestor crate, sizes multiple of 64
    let n = if ctx.thorough { 200 } else { 30 };
    for t in 0..n {
        let k = (2f64.powf(rng.gen_range(0.0..6.0)) as usize).clamp(1, 64);
        let r = (2f64.powf(rng.gen_range(0.0..6.0)) as usize).clamp(1, 64);
        let sb = if t % 3 == 0 { 128 } else { 64 };
        let orig = originals(ctx.seed, ctx.counter, k, sb);
        enc_event_rs16(ctx, k, r, &orig);
    }
}


// ======================================================================
// decode rounds

fn digest_list(items: &[(usize, &[u8])]) -> String {
    let v: Vec<String> = items
        .iter()
        .map(|(i, b)| format!("[{},{},\"{}\"]", i, b.len(), util::fnv_hex(b)))
        .collect();
    arr_json(&v)
}

/// One decode round on a fresh object of (kind, engine): shards arrive in `arrival` order
/// ((false, i) = original i, (true, j) = recovery j).  Records restored shards as digests next to
/// the digests of all originals, plus accessor probes.
#[allow(clippy::too_many_arguments)]
pub fn dec_event(
    ctx: &mut Ctx,
    engine: &str,
    kind: Option<Kind>,
    k: usize,
    r: usize,
    orig: &[Vec<u8>],
    rec: &[Vec<u8>],
    arrival: &[(bool, usize)],
    probes: &[usize],
) -> bool {
    use crate::dut::DecObj;
    use std::panic::{catch_unwind, AssertUnwindSafe};
    ops::poison_on(ctx.seed ^ ctx.counter ^ 0xdec);
    let sb = orig[0].len();
    let id = ctx.next_id();
    let rate = rate_used(kind, k, r);
    let g_o: Vec<usize> = arrival.iter().filter(|a| !a.0).map(|a| a.1).collect();
    let g_r: Vec<usize> = arrival.iter().filter(|a| a.0).map(|a| a.1).collect();
    // (restored list in iteration order, probe results) or failure
    type Out = (Vec<(usize, Vec<u8>)>, Vec<(usize, bool)>, usize, String);
    let res: Result<Out, String> = with_engine!(engine, E, {
        let r0 = catch_unwind(AssertUnwindSafe(|| -> Result<Out, String> {
            match kind {
                None => {
                    let o: Vec<(usize, &Vec<u8>)> = g_o.iter().map(|i| (*i, &orig[*i])).collect();
                    let rr: Vec<(usize, &Vec<u8>)> = g_r.iter().map(|j| (*j, &rec[*j])).collect();
                    let m = reed_solomon_simd::decode(k, r, o, rr).map_err(|e| util::err_json(&e))?;
                    let mut v: Vec<(usize, Vec<u8>)> = m.into_iter().collect();
                    v.sort();
                    let pr = probes.iter().map(|p| (*p, v.iter().any(|x| x.0 == *p))).collect();
                    Ok((v, pr, 0, String::new()))
                }
                Some(kind) => {
                    let mut d = DecObj::<E>::new(kind, k, r, sb).map_err(|e| util::err_json(&e))?;
                    for (is_rec, i) in arrival {
                        if *is_rec {
                            d.add_recovery(*i, &rec[*i]).map_err(|e| util::err_json(&e))?;
                        } else {
                            d.add_original(*i, &orig[*i]).map_err(|e| util::err_json(&e))?;
                        }
                    }
                    let result = d.decode().map_err(|e| util::err_json(&e))?;
                    let mut it = result.restored_original_iter();
                    let mut v = Vec::new();
                    for (i, s) in it.by_ref() {
                        v.push((i, s.to_vec()));
                    }
                    let again = (0..3).filter(|_| it.next().is_some()).count();
                    let pr = probes
                        .iter()
                        .map(|p| {
                            let got = result.restored_original(*p);
                            if let Some(b) = got {
                                // accessor and iterator must expose the same bytes
                                assert!(v.iter().any(|x| x.0 == *p && x.1 == b), "restored_original({p}) differs from the iterator's shard");
                            }
                            (*p, got.is_some())
                        })
                        .collect();
                    let proto = crate::replay::iter_protocol_dec(&result, &v);
                    Ok((v, pr, again, proto))
                }
            }
        }));
        match r0 {
            Ok(x) => x,
            Err(p) => Err(util::panic_json(&util::panic_message(&*p))),
        }
    });
    // originals that must come back: the driver's own view of what is missing (TLC recomputes it from gO)
    let given: BTreeSet<usize> = g_o.iter().copied().collect();
    let missing: Vec<usize> = (0..k).filter(|i| !given.contains(i)).collect();
    let big = missing.len() > 256;
    let mut o = Obj::new()
        .str("ev", "dec")
        .int("id", id as i64)
        .str("kind", kind_name(kind))
        .str("engine", engine)
        .str("rate", rate)
        .us("k", k)
        .us("r", r)
        .us("sb", sb)
        .uss("gO", g_o.iter())
        .uss("gR", g_r.iter());
    if big {
        let parts: Vec<&[u8]> = missing.iter().map(|i| orig[*i].as_slice()).collect();
        o = o.str("odigall", &format!("{:016x}", util::fnv_many(parts)));
    } else {
        let all: Vec<(usize, &[u8])> = missing.iter().map(|i| (*i, orig[*i].as_slice())).collect();
        o = o.raw("odig", &digest_list(&all));
    }
    let ok = match res {
        Ok((v, pr, again, proto)) => {
            if !proto.is_empty() {
                o = o.raw("proto", &proto);
            }
            let prs: Vec<String> = pr.iter().map(|(p, s)| format!("[{},{}]", util::enc(*p), s)).collect();
            if big {
                let idx: Vec<usize> = v.iter().map(|x| x.0).collect();
                let parts: Vec<&[u8]> = v.iter().map(|x| x.1.as_slice()).collect();
                o = o
                    .uss("ridx", idx.iter())
                    .bool("rlenok", v.iter().all(|x| x.1.len() == sb))
                    .str("rdigall", &format!("{:016x}", util::fnv_many(parts)));
            } else {
                let items: Vec<(usize, &[u8])> = v.iter().map(|(i, b)| (*i, b.as_slice())).collect();
                o = o.raw("restored", &digest_list(&items));
            }
            o = o.raw("probes", &arr_json(&prs)).us("again", again);
            true
        }
        Err(f) => {
            o = o.raw("fail", &f);
            false
        }
    };
    ctx.trace.line(&o.done());
    ctx.bump(&format!("dec/{}/{}", kind_name(kind), engine));
    ok
}

/// Erasure patterns for (k, r): arrival lists with at least k shards.
fn patterns(rng: &mut impl Rng, k: usize, r: usize, n_random: usize) -> Vec<Vec<(bool, usize)>> {
    let mut out: Vec<Vec<(bool, usize)>> = Vec::new();
    let all: Vec<(bool, usize)> = (0..k).map(|i| (false, i)).chain((0..r).map(|j| (true, j))).collect();
    // everything
    out.push(all.clone());
    // all recovery + fewest originals (maximum loss)
    if r >= k {
        out.push((0..k).map(|j| (true, r - 1 - j)).collect());
        out.push((0..k).map(|j| (true, j)).collect());
    } else {
        let mut v: Vec<(bool, usize)> = (0..r).map(|j| (true, j)).collect();
        v.extend((0..k - r).map(|i| (false, k - 1 - i))); // tail originals
        out.push(v);
        let mut v: Vec<(bool, usize)> = (0..r).map(|j| (true, j)).collect();
        v.extend((0..k - r).map(|i| (false, i))); // head originals
        out.push(v);
    }
    // exactly k random, scattered
    for _ in 0..n_random {
        let mut a = all.clone();
        a.shuffle(rng);
        a.truncate(k + if rng.gen_bool(0.3) { rng.gen_range(0..=r.min(3)) } else { 0 });
        if a.iter().all(|x| !x.0) {
            // all originals given: still a legal round (nothing to restore)
        }
        out.push(a);
    }
    // burst: a contiguous run of originals lost
    if k >= 2 && r >= 1 {
        let lost = r.min(k - 1).max(1);
        let start = rng.gen_range(0..=k - lost);
        let mut v: Vec<(bool, usize)> = (0..k).filter(|i| *i < start || *i >= start + lost).map(|i| (false, i)).collect();
        let mut js: Vec<usize> = (0..r).collect();
        js.shuffle(rng);
        v.extend(js.into_iter().take(lost).map(|j| (true, j)));
        v.shuffle(rng);
        out.push(v);
    }
    out
}

fn family_c01(ctx: &mut Ctx) {
    let engines = ctx.engines.clone();
    let mut rng = util::rng(ctx.seed, 1);
    // small configurations: every (rate,k,r) with k+r <= 7 (thorough 10), several patterns each
    let lim = if ctx.thorough { 10 } else { 7 };
    let mut idx = 0usize;
    for rate in ["high", "low"] {
        for k in 1..lim {
            for r in 1..lim {
                if k + r > lim || !crate::dut::supports_rate(rate, k, r) {
                    continue;
                }
                let dr = ops::default_rate_of(k, r).unwrap_or("none");
                let sb = *[2usize, 64, 66, 130, 2, 66, 1026, 1150].choose(&mut rng).unwrap();
                let orig = originals(ctx.seed, ctx.counter, k, sb);
                let rec = crate::dut::ref_encode(rate, k, r, &orig);
                for pat in patterns(&mut rng, k, r, 3) {
                    idx += 1;
                    let e = engines[idx % engines.len()];
                    let kinds = ops::kinds_for(rate, dr, e);
                    let kd = kinds[(idx / engines.len()) % kinds.len()];
                    dec_event(ctx, e, kd, k, r, &orig, &rec, &pat, &[0, k - 1, k, usize::MAX]);
                }
            }
        }
    }
    // mid-size random configurations
    let n = if ctx.thorough { 300 } else { 40 };
    for _ in 0..n {
        let k = (2f64.powf(rng.gen_range(0.0..9.5)) as usize).clamp(1, 700);
        let r = (2f64.powf(rng.gen_range(0.0..9.5)) as usize).clamp(1, 700);
        let rate = if rng.gen_bool(0.5) { "high" } else { "low" };
        if !crate::dut::supports_rate(rate, k, r) {
            continue;
        }
        let dr = ops::default_rate_of(k, r).unwrap_or("none");
        let sb = *[2usize, 8, 64, 66].choose(&mut rng).unwrap();
        let orig = originals(ctx.seed, ctx.counter, k, sb);
        let rec = crate::dut::ref_encode(rate, k, r, &orig);
        for pat in patterns(&mut rng, k, r, 1) {
            let e = *engines.choose(&mut rng).unwrap();
            let kd = *ops::kinds_for(rate, dr, e).choose(&mut rng).unwrap();
            dec_event(ctx, e, kd, k, r, &orig, &rec, &pat, &[0, k / 2, k - 1, k, 65536]);
        }
    }
    // thousands of shards with multi-block / odd shard sizes
    let nbig = if ctx.thorough { 30 } else { 6 };
    for t in 0..nbig {
        let (k, r) = match t % 6 {
            0 => (rng.gen_range(1000..5000), rng.gen_range(100..1000)),
            1 => (rng.gen_range(100..1000), rng.gen_range(1000..5000)),
            2 => (4097, 1023),
            3 => (1023, 4097),
            4 => (3 * 512 + 7, 511),
            _ => (rng.gen_range(2000..6000), rng.gen_range(2000..6000)),
        };
        let rate = if t % 2 == 0 { "high" } else { "low" };
        if !crate::dut::supports_rate(rate, k, r) {
            continue;
        }
        let dr = ops::default_rate_of(k, r).unwrap_or("none");
        let sb = *[64usize, 66, 130, 192, 6].choose(&mut rng).unwrap();
        let orig = originals(ctx.seed, ctx.counter, k, sb);
        let rec = crate::dut::ref_encode(rate, k, r, &orig);
        let pats = patterns(&mut rng, k, r, 1);
        for pat in pats.into_iter().skip(1).take(if ctx.thorough { 3 } else { 2 }) {
            let e = *engines.iter().filter(|e| **e != "naive").collect::<Vec<_>>().choose(&mut rng).unwrap();
            let kd = *ops::kinds_for(rate, dr, e).choose(&mut rng).unwrap();
            dec_event(ctx, e, kd, k, r, &orig, &rec, &pat, &[0, k - 1, k, 65535]);
        }
    }
    // shards beyond 16 KiB (chunk counts that are not multiples of 4 / 256: tiled and unrolled loops)
    let large: &[(&str, usize, usize, usize)] =
        if ctx.thorough { &[("high", 3, 2, 16448), ("low", 2, 3, 20000), ("high", 5, 3, 40962), ("low", 3, 4, 16386), ("high", 2, 2, 65600), ("low", 2, 5, 33000)] } else { &[("high", 3, 2, 16448), ("low", 2, 3, 20000), ("high", 5, 3, 40962)] };
    for (li, (rate, k, r, sb)) in large.iter().copied().enumerate() {
        let dr = ops::default_rate_of(k, r).unwrap_or("none");
        let orig = originals(ctx.seed, 0x1A00 + ctx.counter, k, sb);
        let rec = crate::dut::ref_encode(rate, k, r, &orig);
        let pats = patterns(&mut rng, k, r, 1);
        for (ei, e) in engines.iter().enumerate() {
            let kinds = ops::kinds_for(rate, dr, e);
            let kd = kinds[(ei + li) % kinds.len()];
            let pat = &pats[1 + (ei + li) % (pats.len() - 1)];
            dec_event(ctx, e, kd, k, r, &orig, &rec, pat, &[0, k - 1, k]);
        }
    }
    // nearly everything received: single losses around bitmap word boundaries
    let n = if ctx.thorough { 200 } else { 40 };
    long_run_rounds(ctx, &mut rng, &engines, n, true);
    // every configuration ON the envelope edge, on every engine: the encoders must agree (and none may fail), and - for
    // a third of them per run - every engine decodes at maximum loss
    for (bi, (rate, k, r)) in boundary_configs(true).into_iter().filter(|c| c.1 + c.2 >= 60000).enumerate() {
        let ded = Some(if rate == "high" { Kind::High } else { Kind::Low });
        let fast: Vec<&'static str> = engines.iter().copied().filter(|e| *e != "naive").collect();
        let mut orig = vec![vec![0u8; 2]; k];
        for i in [0usize, k / 3, k - 1] {
            let v: u16 = rng.gen_range(1..=u16::MAX);
            orig[i] = vec![v as u8, (v >> 8) as u8];
        }
        let mut digs = Obj::new();
        let mut rec0: Option<Vec<Vec<u8>>> = None;
        for e in &fast {
            ops::poison_on(ctx.seed ^ ctx.counter);
            let res = with_engine!(*e, E, { encode_round::<E>(ded, k, r, &orig) });
            ctx.counter += 1;
            match res {
                Ok(rec) => {
                    let parts: Vec<&[u8]> = rec.iter().map(Vec::as_slice).collect();
                    digs = digs.str(e, &format!("{}:{:016x}", rec.len(), util::fnv_many(parts)));
                    if rec0.is_none() {
                        rec0 = Some(rec);
                    }
                }
                Err(f) => digs = digs.str(e, &format!("FAIL {f}")),
            }
        }
        ctx.trace.line(&Obj::new().str("ev", "xenc").str("rate", rate).us("k", k).us("r", r).us("sb", 2).raw("digs", &digs.done()).done());
        if let Some(rec) = rec0 {
            if rec.len() == r && (ctx.thorough || bi % 3 == (ctx.seed as usize) % 3) {
                let pats = patterns(&mut rng, k, r, 0);
                for e in &fast {
                    dec_event(ctx, e, ded, k, r, &orig, &rec, &pats[1], &[0, k - 1, k]);
                }
            }
        }
    }
    // envelope boundary at maximum loss
    for (rate, k, r) in boundary_configs(ctx.thorough) {
        let dr = ops::default_rate_of(k, r).unwrap_or("none");
        let orig = originals(ctx.seed, ctx.counter, k, 2);
        let rec = crate::dut::ref_encode(rate, k, r, &orig);
        let pats = patterns(&mut rng, k, r, 1);
        for pat in pats.into_iter().skip(1).take(if ctx.thorough { 3 } else { 2 }) {
            let e = *engines.iter().filter(|e| **e != "naive" || k + r < 20000).collect::<Vec<_>>().choose(&mut rng).unwrap();
            let kd = *ops::kinds_for(rate, dr, e).choose(&mut rng).unwrap();
            dec_event(ctx, e, kd, k, r, &orig, &rec, &pat, &[0, k - 1, k]);
        }
    }
}

/// C03 end to end: the same rounds on every engine; TLC requires identical recovery bytes.
fn family_c03(ctx: &mut Ctx) {
    let engines = ctx.engines.clone();
    let mut rng = util::rng(ctx.seed, 3);
    let mut cfgs: Vec<(&str, usize, usize, usize)> = vec![
        ("high", 3, 2, 2), ("low", 2, 3, 66), ("high", 5, 3, 130), ("low", 3, 5, 64), ("high", 9, 4, 34), ("low", 4, 9, 192),
        ("high", 17, 16, 6), ("low", 16, 17, 62), ("high", 8, 4, 1026), ("low", 4, 8, 3000), ("high", 4, 2, 2112), ("low", 3, 5, 4480), ("high", 5, 5, 2050), ("high", 3, 2, 16448), ("low", 2, 3, 20000), ("high", 4, 3, 40962), ("high", 70, 13, 2), ("low", 13, 70, 4), ("high", 128, 32, 64), ("low", 32, 128, 64),
        ("high", 300, 200, 2), ("low", 200, 300, 2), ("high", 1000, 100, 2), ("low", 100, 1000, 2),
        ("high", 3000, 1000, 66), ("low", 1000, 3000, 130), ("high", 1543, 511, 64),
    ];
    let extra = if ctx.thorough { 80 } else { 8 };
    for _ in 0..extra {
        let k = (2f64.powf(rng.gen_range(0.0..10.0)) as usize).clamp(1, 1000);
        let r = (2f64.powf(rng.gen_range(0.0..10.0)) as usize).clamp(1, 1000);
        let rate = if rng.gen_bool(0.5) { "high" } else { "low" };
        if crate::dut::supports_rate(rate, k, r) {
            cfgs.push((rate, k, r, *[2usize, 6, 66].choose(&mut rng).unwrap()));
        }
    }
    if ctx.thorough {
        cfgs.push(("high", 61440, 4096, 2));
        cfgs.push(("low", 4096, 61440, 2));
    } else {
        cfgs.push(("high", 8192, 8192, 2));
    }
    // every round-level structure of the payload generator (lane masks, a common zero block, footers / headers), on every
    // engine: identical recovery bytes, and every engine decodes
    for kind in 0..util::ROUND_KINDS {
        for (rate, k, r, sb) in [("high", 5usize, 3usize, 192usize), ("low", 3, 5, 130), ("high", 9, 8, 64)] {
            if !ctx.thorough && (kind as usize + k + ctx.seed as usize) % 3 == 2 {
                continue;
            }
            let ded = Some(if rate == "high" { Kind::High } else { Kind::Low });
            let tag = 0x3C00 + ctx.counter;
            let orig: Vec<Vec<u8>> = (0..k).map(|i| util::payload_with(ctx.seed, tag, i as u64, sb, Some(kind))).collect();
            let mut digs = Obj::new();
            let mut rec0: Option<Vec<Vec<u8>>> = None;
            for e in &engines {
                ops::poison_on(ctx.seed ^ ctx.counter);
                let res = with_engine!(*e, E, { encode_round::<E>(ded, k, r, &orig) });
                ctx.counter += 1;
                match res {
                    Ok(rec) => {
                        let parts: Vec<&[u8]> = rec.iter().map(Vec::as_slice).collect();
                        digs = digs.str(e, &format!("{}:{:016x}", rec.len(), util::fnv_many(parts)));
                        if rec0.is_none() {
                            rec0 = Some(rec);
                        }
                    }
                    Err(f) => digs = digs.str(e, &format!("FAIL {f}")),
                }
            }
            ctx.trace.line(&Obj::new().str("ev", "xenc").str("rate", rate).us("k", k).us("r", r).us("sb", sb).int("payload_kind", kind as i64).raw("digs", &digs.done()).done());
            if let Some(rec) = rec0 {
                if rec.len() == r {
                    let pats = patterns(&mut rng, k, r, 0);
                    for e in &engines {
                        dec_event(ctx, e, ded, k, r, &orig, &rec, &pats[1], &[0, k - 1, k]);
                    }
                }
            }
        }
    }
    for (ci, (rate, k, r, sb)) in cfgs.into_iter().enumerate() {
        let ded = Some(if rate == "high" { Kind::High } else { Kind::Low });
        if (k + r) * sb > 40000 {
            // large rounds: one digest per engine over all recovery shards (the closed form for such shapes is
            // checked on sparse data by C02; here the engines must agree bit for bit on dense data)
            let orig = originals(ctx.seed, ctx.counter, k, sb);
            let mut digs = Obj::new();
            let mut rec0: Option<Vec<Vec<u8>>> = None;
            for e in &engines {
                ops::poison_on(ctx.seed ^ ctx.counter);
                let res = with_engine!(*e, E, { encode_round::<E>(ded, k, r, &orig) });
                ctx.counter += 1;
                match res {
                    Ok(rec) => {
                        let parts: Vec<&[u8]> = rec.iter().map(Vec::as_slice).collect();
                        digs = digs.str(e, &format!("{}:{:016x}", rec.len(), util::fnv_many(parts)));
                        if rec0.is_none() {
                            rec0 = Some(rec);
                        }
                    }
                    Err(f) => digs = digs.str(e, &format!("FAIL {f}")),
                }
            }
            ctx.trace.line(&Obj::new().str("ev", "xenc").str("rate", rate).us("k", k).us("r", r).us("sb", sb).raw("digs", &digs.done()).done());
            if let Some(rec) = rec0 {
                if rec.len() == r {
                    let pats = patterns(&mut rng, k, r, 1);
                    let pat = &pats[if ci % 2 == 0 { 1 } else { pats.len() - 2 }];
                    for e in &engines {
                        dec_event(ctx, e, ded, k, r, &orig, &rec, pat, &[0, k - 1, k]);
                    }
                }
            }
            continue;
        }
        ctx.group = Some(ci as i64);
        let orig = originals(ctx.seed, ctx.counter, k, sb);
        let mut lines = Vec::new();
        let mut rec0 = None;
        for e in &engines {
            let (l, rec) = enc_event(ctx, e, ded, k, r, &orig, None, false);
            lines.push(l as i64);
            if rec0.is_none() {
                rec0 = rec;
            }
        }
        let here = ctx.trace.lines as i64 + 1;
        ctx.trace.line(&Obj::new().str("ev", "alleq").int("g", ci as i64).raw("refs", &arr_json(&lines.iter().map(|l| (l - here).to_string()).collect::<Vec<_>>())).done());
        ctx.group = None;
        // decode on every engine from the same shards
        if let Some(rec) = rec0 {
            if rec.len() == r {
                let pats = patterns(&mut rng, k, r, 1);
                let pat = &pats[if ci % 2 == 0 { 1 } else { pats.len() - 2 }];
                for e in &engines {
                    dec_event(ctx, e, ded, k, r, &orig, &rec, pat, &[0, k - 1, k]);
                }
            }
        }
    }
}

/// C08: every corner configuration of the envelope really encodes and decodes (maximum loss).
fn family_c08(ctx: &mut Ctx) {
    let engines = ctx.engines.clone();
    let mut rng = util::rng(ctx.seed, 8);
    for (bi, (rate, k, r)) in boundary_configs(true).into_iter().enumerate() {
        if !ctx.thorough && bi % 3 != (ctx.seed as usize) % 3 && k + r > 10000 {
            continue;
        }
        let dr = ops::default_rate_of(k, r).unwrap_or("none");
        let sb = if (k + r) * 66 < (8 << 20) && bi % 2 == 0 { 66 } else { 2 };
        let e = *engines.iter().filter(|e| **e != "naive" || k + r < 20000).collect::<Vec<_>>().choose(&mut rng).unwrap();
        let kd = *ops::kinds_for(rate, dr, e).choose(&mut rng).unwrap();
        // sparse data keeps the closed-form evaluation affordable; recovery sampled
        let mut nz: BTreeSet<usize> = [0, k - 1, k / 2].into_iter().collect();
        for _ in 0..5 {
            nz.insert(rng.gen_range(0..k));
        }
        let nz: Vec<usize> = nz.into_iter().collect();
        let mut orig = vec![vec![0u8; sb]; k];
        for i in &nz {
            orig[*i] = util::payload(ctx.seed, 88, *i as u64, sb);
        }
        let (_, rec) = enc_event(ctx, e, kd, k, r, &orig, Some(&nz), false);
        if let Some(rec) = rec {
            if rec.len() == r {
                let pats = patterns(&mut rng, k, r, 0);
                let e2 = *engines.iter().filter(|e| **e != "naive" || k + r < 20000).collect::<Vec<_>>().choose(&mut rng).unwrap();
                let kd2 = *ops::kinds_for(rate, dr, e2).choose(&mut rng).unwrap();
                dec_event(ctx, e2, kd2, k, r, &orig, &rec, &pats[1], &[0, k - 1, k]);
            }
        }
    }
}

/// Decode rounds where nearly everything is received: long runs of received originals with single losses placed at
/// and around multiples of 32 and 64 (bitmap word boundaries), small recovery counts (powers of two and not).
fn long_run_rounds(ctx: &mut Ctx, rng: &mut impl Rng, engines: &[&'static str], n: usize, oneshot_too: bool) {
    for t in 0..n {
        let r = *[1usize, 2, 3, 4, 5, 8, 16, 17].choose(rng).unwrap();
        let k = *[33usize, 64, 65, 100, 129, 200, 513, 1000, 3000].choose(rng).unwrap();
        let rate = if crate::dut::supports_rate("high", k, r) && t % 4 != 3 { "high" } else { "low" };
        if !crate::dut::supports_rate(rate, k, r) {
            continue;
        }
        let dr = ops::default_rate_of(k, r).unwrap_or("none");
        let sb = *[2usize, 6, 66].choose(rng).unwrap();
        let orig = originals(ctx.seed, ctx.counter, k, sb);
        let rec = crate::dut::ref_encode(rate, k, r, &orig);
        // losses: up to r originals at word-boundary-ish positions
        let base = 32 * rng.gen_range(1..=(k / 32).max(1));
        let cands: Vec<usize> = [base - 1, base, base + 1, base.saturating_sub(r), base + r, 31, 32, 63, 64, k - 1, 0]
            .into_iter()
            .filter(|i| *i < k)
            .collect();
        let mut lost: BTreeSet<usize> = BTreeSet::new();
        let want = rng.gen_range(1..=r.min(4));
        while lost.len() < want {
            lost.insert(*cands.choose(rng).unwrap());
        }
        let mut arrival: Vec<(bool, usize)> = (0..k).filter(|i| !lost.contains(i)).map(|i| (false, i)).collect();
        let mut js: Vec<usize> = (0..r).collect();
        js.shuffle(rng);
        let extra = if rng.gen_bool(0.5) { r } else { lost.len() };
        arrival.extend(js.into_iter().take(extra.max(lost.len())).map(|j| (true, j)));
        if t % 3 == 0 {
            arrival.shuffle(rng);
        }
        let e = if oneshot_too && t % 2 == 0 { "default" } else { engines[t % engines.len()] };
        let kinds = ops::kinds_for(rate, dr, e);
        // prefer the one-shot function and the wrapper when available
        let kd = if oneshot_too && kinds.len() > 2 { kinds[2 + t % (kinds.len() - 2)] } else { kinds[t % kinds.len()] };
        let probes: Vec<usize> = lost.iter().copied().chain([0, k - 1, k, base]).collect();
        dec_event(ctx, e, kd, k, r, &orig, &rec, &arrival, &probes);
    }
}

fn family_c10(ctx: &mut Ctx) {
    let engines = ctx.engines.clone();
    let mut rng = util::rng(ctx.seed, 10);
    let n = if ctx.thorough { 400 } else { 60 };
    long_run_rounds(ctx, &mut rng, &engines, n, true);
}

/// Twin rounds on ONE decoder: a round on shape A, then reset to a neighbouring shape B (one shard more or less, same
/// chunk size; or the same shape) and a round in which shards with exactly the SAME indexes arrive in the same
/// order. Anything remembered per received pattern or per shape across rounds is exercised. Each round is
/// recorded as an ordinary `dec` event (restored = the missing originals of THAT round).
fn family_twins(ctx: &mut Ctx) {
    use crate::dut::DecObj;
    use std::panic::{catch_unwind, AssertUnwindSafe};
    let engines = ctx.engines.clone();
    let mut rng = util::rng(ctx.seed, 0x7715);
    let shapes: Vec<(usize, usize)> = vec![(5, 3), (9, 4), (12, 16), (99, 16), (30, 7), (7, 30), (3, 5), (17, 17), (64, 8), (100, 100)];
    let mut case = 0usize;
    for (ka, ra) in shapes {
        for (dk, dr_) in [(1i64, 0i64), (-1, 0), (0, 1), (0, -1), (0, 0), (2, 0)] {
            let kb = (ka as i64 + dk) as usize;
            let rb = (ra as i64 + dr_) as usize;
            for kind in [Kind::High, Kind::Low, Kind::Default] {
                let rate_of = |k: usize, r: usize| -> Option<&'static str> {
                    match kind {
                        Kind::High => crate::dut::supports_rate("high", k, r).then_some("high"),
                        Kind::Low => crate::dut::supports_rate("low", k, r).then_some("low"),
                        _ => ops::default_rate_of(k, r),
                    }
                };
                let (Some(rate_a), Some(rate_b)) = (rate_of(ka, ra), rate_of(kb, rb)) else { continue };
                case += 1;
                if !ctx.thorough && case % 2 == 0 {
                    continue;
                }
                let e = engines[case % engines.len()];
                let sb = *[2usize, 66, 64].choose(&mut rng).unwrap();
                // index set valid and sufficient for both shapes, losing at least one original in both
                let kmin = ka.min(kb);
                let rmin = ra.min(rb);
                let kmax = ka.max(kb);
                let lost = rng.gen_range(1..=rmin.min(kmin).max(1)).min(rmin);
                if kmax > kmin - lost.min(kmin) + rmin {
                    continue; // not enough shards for the larger shape
                }
                let mut os: Vec<usize> = (0..kmin).collect();
                os.shuffle(&mut rng);
                let mut given: Vec<(bool, usize)> = os.into_iter().skip(lost.min(kmin - 1).max(1).min(kmin)).map(|i| (false, i)).collect();
                let need = kmax.saturating_sub(given.len());
                let mut js: Vec<usize> = (0..rmin).collect();
                js.shuffle(&mut rng);
                let extra = rng.gen_range(0..=2usize);
                if need + extra > rmin && need > rmin {
                    continue;
                }
                given.extend(js.into_iter().take((need + extra).min(rmin)).map(|j| (true, j)));
                if given.len() < kmax {
                    continue;
                }
                given.shuffle(&mut rng);
                // run both rounds on one object
                ops::poison_on(ctx.seed ^ case as u64);
                let mut rounds: Vec<(usize, usize, &'static str, Vec<Vec<u8>>, Result<(Vec<(usize, Vec<u8>)>, usize), String>)> = Vec::new();
                let res = with_engine!(e, E, {
                    catch_unwind(AssertUnwindSafe(|| {
                        let mut d = DecObj::<E>::new(kind, ka, ra, sb).map_err(|x| util::err_json(&x))?;
                        for (ri, (k, r, rate)) in [(ka, ra, rate_a), (kb, rb, rate_b)].into_iter().enumerate() {
                            if ri == 1 {
                                d.reset(k, r, sb).map_err(|x| util::err_json(&x))?;
                            }
                            let orig = originals(ctx.seed, 0x7700 + (case * 2 + ri) as u64, k, sb);
                            let rec = crate::dut::ref_encode(rate, k, r, &orig);
                            let mut out: Result<(Vec<(usize, Vec<u8>)>, usize), String> = (|| {
                                for (is_rec, i) in &given {
                                    if *is_rec {
                                        d.add_recovery(*i, &rec[*i]).map_err(|x| util::err_json(&x))?;
                                    } else {
                                        d.add_original(*i, &orig[*i]).map_err(|x| util::err_json(&x))?;
                                    }
                                }
                                let result = d.decode().map_err(|x| util::err_json(&x))?;
                                let mut it = result.restored_original_iter();
                                let mut v = Vec::new();
                                for (i, s) in it.by_ref() {
                                    v.push((i, s.to_vec()));
                                }
                                let again = (0..3).filter(|_| it.next().is_some()).count();
                                Ok((v, again))
                            })();
                            if out.is_err() {
                                out = out.map_err(|x| x);
                            }
                            rounds.push((k, r, rate, orig, out));
                        }
                        Ok::<(), String>(())
                    }))
                });
                let fail = match res {
                    Ok(Ok(())) => None,
                    Ok(Err(f)) => Some(f),
                    Err(p) => Some(util::panic_json(&util::panic_message(&*p))),
                };
                let g_o: Vec<usize> = given.iter().filter(|a| !a.0).map(|a| a.1).collect();
                let g_r: Vec<usize> = given.iter().filter(|a| a.0).map(|a| a.1).collect();
                for (ri, (k, r, rate, orig, out)) in rounds.into_iter().enumerate() {
                    let id = ctx.next_id();
                    let giv: BTreeSet<usize> = g_o.iter().copied().collect();
                    let missing: Vec<(usize, &[u8])> = (0..k).filter(|i| !giv.contains(i)).map(|i| (i, orig[i].as_slice())).collect();
                    let mut o = Obj::new()
                        .str("ev", "dec")
                        .int("id", id as i64)
                        .str("kind", kind.name())
                        .str("engine", e)
                        .str("rate", rate)
                        .us("k", k)
                        .us("r", r)
                        .us("sb", sb)
                        .uss("gO", g_o.iter())
                        .uss("gR", g_r.iter())
                        .int("twin", ri as i64)
                        .raw("odig", &digest_list(&missing));
                    o = match out {
                        Ok((v, again)) => {
                            let items: Vec<(usize, &[u8])> = v.iter().map(|(i, b)| (*i, b.as_slice())).collect();
                            o.raw("restored", &digest_list(&items)).raw("probes", "[]").us("again", again)
                        }
                        Err(f) => o.raw("fail", &f),
                    };
                    ctx.trace.line(&o.done());
                    ctx.bump("dec/twin");
                }
                if let Some(f) = fail {
                    if !f.is_empty() {
                        ctx.trace.line(&Obj::new().str("ev", "twinfail").raw("fail", &f).done());
                    }
                }
            }
        }
    }
}

/// Rate-swap twins: one decoder's working space handed from a codec of one rate to a codec of the OTHER rate with the same
/// counts (the two rates lay the same counts out at different work positions), the second round offering the same index
/// sets or the MIRRORED ones (original i <-> recovery i), which occupy exactly the work positions of the first round.
fn family_rate_swap(ctx: &mut Ctx) {
    use crate::dut::DecObj;
    use std::panic::{catch_unwind, AssertUnwindSafe};
    let engines = ctx.engines.clone();
    let mut rng = util::rng(ctx.seed, 0x5a9);
    let mut case = 0usize;
    for k in [3usize, 5, 6, 9, 17, 33] {
        let r = k;
        for (from, to) in [(Kind::High, Kind::Low), (Kind::Low, Kind::High)] {
            for mirrored in [true, false] {
                case += 1;
                if !ctx.thorough && (case + ctx.seed as usize) % 3 == 2 {
                    continue;
                }
                let e = engines[case % engines.len()];
                let sb = *[2usize, 66, 64].choose(&mut rng).unwrap();
                let nlost = rng.gen_range(1..k);
                let mut idx: Vec<usize> = (0..k).collect();
                idx.shuffle(&mut rng);
                let lost: BTreeSet<usize> = idx.iter().copied().take(nlost).collect();
                idx.shuffle(&mut rng);
                let g_r: Vec<usize> = idx.iter().copied().take(nlost).collect();
                let g_o: Vec<usize> = (0..k).filter(|i| !lost.contains(i)).collect();
                let sets: [(Vec<usize>, Vec<usize>); 2] = if mirrored { [(g_o.clone(), g_r.clone()), (g_r.clone(), g_o.clone())] } else { [(g_o.clone(), g_r.clone()), (g_o.clone(), g_r.clone())] };
                ops::poison_on(ctx.seed ^ (0x5a90 + case as u64));
                type Out = Result<(Vec<(usize, Vec<u8>)>, usize), String>;
                let mut rounds: Vec<(Kind, &'static str, Vec<Vec<u8>>, Out)> = Vec::new();
                let res = with_engine!(e, E, {
                    catch_unwind(AssertUnwindSafe(|| {
                        let mut d = DecObj::<E>::new(from, k, r, sb).map_err(|x| util::err_json(&x))?;
                        for ri in 0..2 {
                            let kind = if ri == 0 { from } else { to };
                            let rate = if kind == Kind::High { "high" } else { "low" };
                            if ri == 1 {
                                d = d.rehouse(to, k, r, sb).map_err(|x| util::err_json(&x))?;
                            }
                            let orig = originals(ctx.seed, 0x5a00 + (case * 2 + ri) as u64, k, sb);
                            let rec = crate::dut::ref_encode(rate, k, r, &orig);
                            let out: Out = (|| {
                                for i in &sets[ri].0 {
                                    d.add_original(*i, &orig[*i]).map_err(|x| util::err_json(&x))?;
                                }
                                for j in &sets[ri].1 {
                                    d.add_recovery(*j, &rec[*j]).map_err(|x| util::err_json(&x))?;
                                }
                                let result = d.decode().map_err(|x| util::err_json(&x))?;
                                let mut it = result.restored_original_iter();
                                let mut v = Vec::new();
                                for (i, s) in it.by_ref() {
                                    v.push((i, s.to_vec()));
                                }
                                let again = (0..3).filter(|_| it.next().is_some()).count();
                                Ok((v, again))
                            })();
                            rounds.push((kind, rate, orig, out));
                        }
                        Ok::<(), String>(())
                    }))
                });
                let fail = match res {
                    Ok(Ok(())) => None,
                    Ok(Err(f)) => Some(f),
                    Err(p) => Some(util::panic_json(&util::panic_message(&*p))),
                };
                for (ri, (kind, rate, orig, out)) in rounds.into_iter().enumerate() {
                    let id = ctx.next_id();
                    let giv: BTreeSet<usize> = sets[ri].0.iter().copied().collect();
                    let missing: Vec<(usize, &[u8])> = (0..k).filter(|i| !giv.contains(i)).map(|i| (i, orig[i].as_slice())).collect();
                    let mut o = Obj::new()
                        .str("ev", "dec")
                        .int("id", id as i64)
                        .str("kind", kind.name())
                        .str("engine", e)
                        .str("rate", rate)
                        .us("k", k)
                        .us("r", r)
                        .us("sb", sb)
                        .uss("gO", sets[ri].0.iter())
                        .uss("gR", sets[ri].1.iter())
                        .int("twin", ri as i64)
                        .bool("swap", true)
                        .raw("odig", &digest_list(&missing));
                    o = match out {
                        Ok((v, again)) => {
                            let items: Vec<(usize, &[u8])> = v.iter().map(|(i, b)| (*i, b.as_slice())).collect();
                            o.raw("restored", &digest_list(&items)).raw("probes", "[]").us("again", again)
                        }
                        Err(f) => o.raw("fail", &f),
                    };
                    ctx.trace.line(&o.done());
                    ctx.bump("dec/swap");
                }
                if let Some(f) = fail {
                    if !f.is_empty() {
                        ctx.trace.line(&Obj::new().str("ev", "twinfail").raw("fail", &f).done());
                    }
                }
            }
        }
    }
}

/// C11 at scale: the same shard set in several arrival orders, and supersets of it.
fn family_c11(ctx: &mut Ctx) {
    let engines = ctx.engines.clone();
    let mut rng = util::rng(ctx.seed, 11);
    let n = if ctx.thorough { 120 } else { 24 };
    for t in 0..n {
        let (k, r) = if t % 4 == 0 {
            (rng.gen_range(500..2000), rng.gen_range(100..1500))
        } else {
            (rng.gen_range(1..120), rng.gen_range(1..120))
        };
        let rate = if t % 2 == 0 { "high" } else { "low" };
        if !crate::dut::supports_rate(rate, k, r) {
            continue;
        }
        let dr = ops::default_rate_of(k, r).unwrap_or("none");
        let sb = *[2usize, 6, 64].choose(&mut rng).unwrap();
        let orig = originals(ctx.seed, ctx.counter, k, sb);
        let rec = crate::dut::ref_encode(rate, k, r, &orig);
        let all: Vec<(bool, usize)> = (0..k).map(|i| (false, i)).chain((0..r).map(|j| (true, j))).collect();
        let mut set = all.clone();
        set.shuffle(&mut rng);
        // a sufficient set with some originals missing where possible
        let lost = rng.gen_range(1..=r.min(k));
        let mut chosen: Vec<(bool, usize)> = set.iter().copied().filter(|x| !x.0).take(k - lost).collect();
        chosen.extend(set.iter().copied().filter(|x| x.0).take(lost));
        let e = *engines.choose(&mut rng).unwrap();
        let kd = *ops::kinds_for(rate, dr, e).choose(&mut rng).unwrap();
        // orders: originals first, recovery first, sorted descending, two shuffles
        let mut o1 = chosen.clone();
        o1.sort();
        let mut o2 = o1.clone();
        o2.reverse();
        let mut o3 = chosen.clone();
        o3.shuffle(&mut rng);
        let mut o4 = chosen.clone();
        o4.shuffle(&mut rng);
        for o in [&o1, &o2, &o3, &o4] {
            dec_event(ctx, e, kd, k, r, &orig, &rec, o, &[0, k - 1]);
        }
        // supersets: add surplus recovery, surplus originals, everything
        let mut sup = chosen.clone();
        for x in set.iter() {
            if !sup.contains(x) && rng.gen_bool(0.5) {
                sup.push(*x);
            }
        }
        sup.shuffle(&mut rng);
        dec_event(ctx, e, kd, k, r, &orig, &rec, &sup, &[0, k - 1]);
        let mut everything = all.clone();
        everything.shuffle(&mut rng);
        dec_event(ctx, e, kd, k, r, &orig, &rec, &everything, &[0, k - 1]);
        // all originals + some recovery: nothing restored
        let mut allo: Vec<(bool, usize)> = (0..k).map(|i| (false, i)).collect();
        allo.extend((0..r).filter(|_| rng.gen_bool(0.5)).map(|j| (true, j)));
        allo.shuffle(&mut rng);
        dec_event(ctx, e, kd, k, r, &orig, &rec, &allo, &[0, k - 1]);
    }
    // nearly everything received, in several orders: single losses around bitmap word boundaries
    let n = if ctx.thorough { 200 } else { 40 };
    long_run_rounds(ctx, &mut rng, &engines, n, true);
}

/// C12 at scale: sparse received sets on large configurations, many accessor probes.
fn family_c12(ctx: &mut Ctx) {
    let engines = ctx.engines.clone();
    let mut rng = util::rng(ctx.seed, 12);
    let n = if ctx.thorough { 60 } else { 12 };
    for t in 0..n {
        let (k, r) = if t % 3 == 0 { (rng.gen_range(3000..9000), rng.gen_range(3000..9000)) } else { (rng.gen_range(2..400), rng.gen_range(2..400)) };
        let rate = if t % 2 == 0 { "high" } else { "low" };
        if !crate::dut::supports_rate(rate, k, r) {
            continue;
        }
        let dr = ops::default_rate_of(k, r).unwrap_or("none");
        let orig = originals(ctx.seed, ctx.counter, k, 2);
        let rec = crate::dut::ref_encode(rate, k, r, &orig);
        let lost = rng.gen_range(1..=r.min(k));
        let mut os: Vec<usize> = (0..k).collect();
        os.shuffle(&mut rng);
        let mut js: Vec<usize> = (0..r).collect();
        js.shuffle(&mut rng);
        let mut arrival: Vec<(bool, usize)> = os.iter().take(k - lost).map(|i| (false, *i)).collect();
        arrival.extend(js.iter().take(lost).map(|j| (true, *j)));
        arrival.shuffle(&mut rng);
        let mut probes: Vec<usize> = (0..40).map(|_| rng.gen_range(0..k + 3)).collect();
        probes.extend([0, k - 1, k, 65535, 65536, usize::MAX - 1, usize::MAX]);
        let e = *engines.iter().filter(|e| **e != "naive" || k + r < 2000).collect::<Vec<_>>().choose(&mut rng).unwrap();
        let kd = *ops::kinds_for(rate, dr, e).choose(&mut rng).unwrap();
        dec_event(ctx, e, kd, k, r, &orig, &rec, &arrival, &probes);
    }
    let n = if ctx.thorough { 200 } else { 40 };
    long_run_rounds(ctx, &mut rng, &engines, n, true);
}

// ======================================================================
// C13 linearity, C04 sizes and slots, C09 default = dedicated

fn xor_shards(a: &[Vec<u8>], b: &[Vec<u8>]) -> Vec<Vec<u8>> {
    a.iter().zip(b).map(|(x, y)| x.iter().zip(y).map(|(p, q)| p ^ q).collect()).collect()
}

/// Multiplies every symbol of every shard by the field constant c (table-free shift-and-xor in the
/// polynomial representation would need the basis change; here the crate's certified exp/log tables
/// are used - TLC re-checks the relation symbol by symbol with its own arithmetic).
fn scale_shards(a: &[Vec<u8>], c: u16) -> Vec<Vec<u8>> {
    use reed_solomon_simd::engine::tables;
    let el = &*tables::EXP_LOG;
    let logc = el.log[c as usize];
    a.iter()
        .map(|s| {
            let sb = s.len();
            let mut out = vec![0u8; sb];
            let full = sb / 64;
            let tail = sb % 64;
            let mut put = |lo: usize, hi: usize, out: &mut Vec<u8>| {
                let x = u16::from(s[lo]) | (u16::from(s[hi]) << 8);
                let y = if c == 0 { 0 } else { tables::mul(x, logc, &el.exp, &el.log) };
                out[lo] = y as u8;
                out[hi] = (y >> 8) as u8;
            };
            for b in 0..full {
                for l in 0..32 {
                    put(64 * b + l, 64 * b + 32 + l, &mut out);
                }
            }
            for l in 0..tail / 2 {
                put(64 * full + l, 64 * full + tail / 2 + l, &mut out);
            }
            out
        })
        .collect()
}

fn family_c13(ctx: &mut Ctx) {
    let engines = ctx.engines.clone();
    let mut rng = util::rng(ctx.seed, 13);
    let mut cfgs: Vec<(&str, usize, usize)> = Vec::new();
    for rate in ["high", "low"] {
        for (k, r) in [(1, 1), (2, 3), (3, 2), (5, 3), (3, 5), (8, 8), (9, 4), (4, 9), (17, 5), (5, 17), (33, 31), (64, 64), (100, 37), (37, 100), (257, 255)] {
            if crate::dut::supports_rate(rate, k, r) {
                cfgs.push((rate, k, r));
            }
        }
    }
    let extra = if ctx.thorough { 150 } else { 20 };
    for _ in 0..extra {
        let k = rng.gen_range(1..300);
        let r = rng.gen_range(1..300);
        let rate = if rng.gen_bool(0.5) { "high" } else { "low" };
        if crate::dut::supports_rate(rate, k, r) {
            cfgs.push((rate, k, r));
        }
    }
    // boundary configurations (2-byte shards; sampled recovery indexes are the same for the three rounds)
    for (rate, k, r) in boundary_configs(false).into_iter().skip(2).take(if ctx.thorough { 40 } else { 2 }) {
        cfgs.push((rate, k, r));
    }
    for (ci, (rate, k, r)) in cfgs.into_iter().enumerate() {
        let dr = ops::default_rate_of(k, r).unwrap_or("none");
        let big = k + r > 1000;
        let sb = if big { 2 } else if k + r > 40 { *[2usize, 6].choose(&mut rng).unwrap() } else { *[2usize, 6, 64, 66, 130].choose(&mut rng).unwrap() };
        let e = engines[(ci + ctx.seed as usize) % engines.len()];
        let e = if big && e == "naive" { "nosimd" } else { e };
        let kd = *ops::kinds_for(rate, dr, e).choose(&mut rng).unwrap();
        ctx.group = Some(ci as i64);
        let a = originals(ctx.seed, 1000 + ci as u64 * 3, k, sb);
        let b = originals(ctx.seed, 1001 + ci as u64 * 3, k, sb);
        let ab = xor_shards(&a, &b);
        // every third group: each round is the SECOND round of an encoder that coded other data before (no reset in
        // between) - the map must still be the same linear map
        let second = ci % 3 == 1 && kd.is_some() && k + r <= 400;
        let prior = |ctx: &mut Ctx, n: u64| {
            if second {
                ctx.prior = Some(originals(ctx.seed, 0x13F0 + ci as u64 * 4 + n, k, sb));
            }
        };
        prior(ctx, 0);
        let (la, _) = enc_event(ctx, e, kd, k, r, &a, None, false);
        prior(ctx, 1);
        let (lb, _) = enc_event(ctx, e, kd, k, r, &b, None, false);
        prior(ctx, 2);
        let (lab, _) = enc_event(ctx, e, kd, k, r, &ab, None, false);
        let here = ctx.trace.lines as i64 + 1;
        ctx.trace.line(&Obj::new().str("ev", "lin").int("g", ci as i64).int("a", la as i64 - here).int("b", lb as i64 - here).int("ab", lab as i64 - here).done());
        // scalar multiple
        let c: u16 = if ci % 7 == 0 { 1 } else { rng.gen_range(2..=u16::MAX) };
        let ca = scale_shards(&a, c);
        prior(ctx, 3);
        let (lca, _) = enc_event(ctx, e, kd, k, r, &ca, None, false);
        let here = ctx.trace.lines as i64 + 1;
        ctx.trace.line(&Obj::new().str("ev", "scal").int("g", ci as i64).int("a", la as i64 - here).int("ca", lca as i64 - here).int("c", i64::from(c)).done());
        // zero data
        if ci % 3 == 0 {
            let z = vec![vec![0u8; sb]; k];
            enc_event(ctx, e, kd, k, r, &z, Some(&[]), false);
        }
    }
}

/// C13 with multi-block shards on every engine (unrolled / table-driven paths that depend on the shard length).
fn family_c13_large(ctx: &mut Ctx) {
    let engines = ctx.engines.clone();
    let mut rng = util::rng(ctx.seed, 1313);
    let sizes: &[usize] = if ctx.thorough { &[320, 448, 704, 1088, 2048, 2114, 4160, 8256] } else { &[320, 448, 1088, 2048, 2114, 4160] };
    for (si, sb) in sizes.iter().copied().enumerate() {
        for (ei, e) in engines.iter().enumerate() {
            let (rate, k, r) = [("high", 3usize, 2usize), ("low", 2, 3), ("high", 5, 3), ("low", 3, 5)][(si + ei) % 4];
            let dr = ops::default_rate_of(k, r).unwrap_or("none");
            let kd = *ops::kinds_for(rate, dr, e).choose(&mut rng).unwrap();
            let g = 100_000 + (si * 16 + ei) as i64;
            ctx.group = Some(g);
            let a = originals(ctx.seed, 0x1300 + (si * 16 + ei) as u64 * 2, k, sb);
            let b = originals(ctx.seed, 0x1301 + (si * 16 + ei) as u64 * 2, k, sb);
            let ab = xor_shards(&a, &b);
            let (la, _) = enc_event(ctx, e, kd, k, r, &a, None, false);
            let (lb, _) = enc_event(ctx, e, kd, k, r, &b, None, false);
            let (lab, _) = enc_event(ctx, e, kd, k, r, &ab, None, false);
            let here = ctx.trace.lines as i64 + 1;
            ctx.trace.line(&Obj::new().str("ev", "lin").int("g", g).int("a", la as i64 - here).int("b", lb as i64 - here).int("ab", lab as i64 - here).done());
            let c: u16 = rng.gen_range(2..=u16::MAX);
            let ca = scale_shards(&a, c);
            let (lca, _) = enc_event(ctx, e, kd, k, r, &ca, None, false);
            let here = ctx.trace.lines as i64 + 1;
            ctx.trace.line(&Obj::new().str("ev", "scal").int("g", g).int("a", la as i64 - here).int("ca", lca as i64 - here).int("c", i64::from(c)).done());
            ctx.group = None;
        }
    }
}

fn family_c04(ctx: &mut Ctx) {
    let engines = ctx.engines.clone();
    let mut rng = util::rng(ctx.seed, 4);
    let mut sizes: Vec<usize> = if ctx.thorough { (1..=129).map(|x| x * 2).collect() } else { (1..=66).map(|x| x * 2).collect() };
    // beyond one KiB: kernels that walk a shard in strips of several blocks
    sizes.extend(if ctx.thorough { vec![510, 1022, 1026, 1150, 2050, 3000, 4098, 8190] } else { vec![190, 254, 258, 1026, 1150, 3000] });
    let cfgs: [(&str, usize, usize); 9] = [("high", 3, 2), ("low", 2, 3), ("high", 5, 2), ("low", 2, 5), ("high", 1, 1), ("low", 4, 4), ("high", 40, 17), ("low", 17, 40), ("high", 9, 9)];
    for (si, sb) in sizes.iter().enumerate() {
        let n = if ctx.thorough { 6 } else { 2 };
        for t in 0..n {
            let (rate, k, r) = cfgs[(si + t * 2 + ctx.seed as usize) % cfgs.len()];
            let dr = ops::default_rate_of(k, r).unwrap_or("none");
            let e = engines[(si + t * 3 + ctx.seed as usize) % engines.len()];
            let kd = *ops::kinds_for(rate, dr, e).choose(&mut rng).unwrap();
            // large sizes only with the small shapes (every slot is evaluated)
            let (rate, k, r) = if *sb > 300 && k + r > 12 { ("high", 3, 2) } else { (rate, k, r) };
            let dr = ops::default_rate_of(k, r).unwrap_or("none");
            let kd = if k + r == 5 && rate == "high" { *ops::kinds_for(rate, dr, e).choose(&mut rng).unwrap() } else { kd };
            let orig = originals(ctx.seed, ctx.counter, k, *sb);
            // every slot of every recovery shard is evaluated by TLC
            let (_, rec) = enc_event(ctx, e, kd, k, r, &orig, None, true);
            if let Some(rec) = rec {
                if rec.len() == r && rec.iter().all(|s| s.len() == *sb) {
                    // decode at the same size: maximum loss
                    let pats = patterns(&mut rng, k, r, 1);
                    let e2 = engines[(si + t + 1) % engines.len()];
                    let kd2 = *ops::kinds_for(rate, dr, e2).choose(&mut rng).unwrap();
                    dec_event(ctx, e2, kd2, k, r, &orig, &rec, &pats[1], &[0, k - 1, k]);
                }
            }
        }
    }
    // sizes of many blocks (kernels that tile a shard: tails of 4, 16, 64 blocks) on EVERY engine: one engine's round
    // is evaluated slot by slot, the others must produce the same bytes (`alleq`), and all of them decode
    let big: &[usize] = if ctx.thorough { &[1090, 2114, 4162, 5000, 8258, 12290, 16450] } else { &[1090, 4162, 5000] };
    for (bi, sb) in big.iter().copied().enumerate() {
        let (rate, k, r) = [("high", 3usize, 2usize), ("low", 2, 3), ("high", 4, 4)][(bi + ctx.seed as usize) % 3];
        let ded = Some(if rate == "high" { Kind::High } else { Kind::Low });
        let g = 200_000 + bi as i64;
        ctx.group = Some(g);
        let orig = originals(ctx.seed, 0x4B00 + ctx.counter, k, sb);
        let mut lines = Vec::new();
        let mut rec0 = None;
        for (ei, e) in engines.iter().enumerate() {
            let (l, rec) = enc_event(ctx, e, ded, k, r, &orig, None, ei == (bi + ctx.seed as usize) % engines.len());
            lines.push(l as i64);
            if rec0.is_none() {
                rec0 = rec;
            }
        }
        let here = ctx.trace.lines as i64 + 1;
        ctx.trace.line(&Obj::new().str("ev", "alleq").int("g", g).raw("refs", &arr_json(&lines.iter().map(|l| (l - here).to_string()).collect::<Vec<_>>())).done());
        ctx.group = None;
        if let Some(rec) = rec0 {
            if rec.len() == r && rec.iter().all(|s| s.len() == sb) {
                let pats = patterns(&mut rng, k, r, 0);
                for e in &engines {
                    dec_event(ctx, e, ded, k, r, &orig, &rec, &pats[1], &[0, k - 1, k]);
                }
            }
        }
    }
}

/// C09: default-rate kinds next to the dedicated codec of each rate on the same data.
fn family_c09(ctx: &mut Ctx) {
    let engines = ctx.engines.clone();
    let mut rng = util::rng(ctx.seed, 9);
    let lim = if ctx.thorough { 24 } else { 11 };
    let mut cfgs: Vec<(usize, usize)> = Vec::new();
    for k in 1..=lim {
        for r in 1..=lim {
            cfgs.push((k, r));
        }
    }
    // power-of-two boundaries of the rule
    for p in [32usize, 256, 1024] {
        for (k, r) in [(p, p), (p + 1, p), (p, p + 1), (p - 1, p), (p, p - 1), (p + 1, p + 1), (2 * p, p + 1), (p + 1, 2 * p), (2 * p, 2 * p - 1)] {
            cfgs.push((k, r));
        }
    }
    for (ci, (k, r)) in cfgs.into_iter().enumerate() {
        let Some(dr) = ops::default_rate_of(k, r) else { continue };
        let sb = if k + r > 200 { 2 } else { *[2usize, 4, 66].choose(&mut rng).unwrap() };
        let orig = originals(ctx.seed, ctx.counter, k, sb);
        ctx.group = Some(ci as i64);
        // the API layers proper: DefaultRate<DefaultEngine>, ReedSolomonEncoder, the one-shot function (in turn) ...
        let layer = [Some(Kind::Default), Some(Kind::Rs), None][ci % 3];
        let (l1, rec1) = enc_event(ctx, "default", layer, k, r, &orig, None, false);
        // ... next to the dedicated codec of the rate the code's own rule names, on the reference engine
        let ded = if dr == "high" { Kind::High } else { Kind::Low };
        let (l2, _) = enc_event(ctx, "naive", Some(ded), k, r, &orig, None, false);
        let here = ctx.trace.lines as i64 + 1;
        ctx.trace.line(&Obj::new().str("ev", "same").int("g", ci as i64).int("a", l1 as i64 - here).int("b", l2 as i64 - here).done());
        // "with any engine": the default-rate codec over an explicit engine (rotating) against the same dedicated round
        let e = engines[(ci + ctx.seed as usize) % engines.len()];
        if e != "default" {
            let (l3, _) = enc_event(ctx, e, Some(Kind::Default), k, r, &orig, None, false);
            let here = ctx.trace.lines as i64 + 1;
            ctx.trace.line(&Obj::new().str("ev", "same").int("g", ci as i64).int("a", l3 as i64 - here).int("b", l2 as i64 - here).done());
        }
        ctx.group = None;
        // decode dedicated-encoded shards with the API layer
        if let Some(rec) = rec1 {
            if ci % 2 == 0 && rec.len() == r {
                let pats = patterns(&mut rng, k, r, 1);
                let reference = crate::dut::ref_encode(dr, k, r, &orig);
                dec_event(ctx, "default", layer, k, r, &orig, &reference, &pats[1], &[0, k - 1, k]);
            }
        }
    }
    // long shards (kernels that work in strips of blocks) through the API layers
    for (ci, (k, r, sb)) in [(3usize, 2usize, 3000usize), (2, 3, 2112), (5, 5, 4480), (4, 2, 2050), (9, 4, 1026)].into_iter().enumerate() {
        let Some(dr) = ops::default_rate_of(k, r) else { continue };
        let orig = originals(ctx.seed, ctx.counter, k, sb);
        ctx.group = Some(10000 + ci as i64);
        let layer = [Some(Kind::Default), Some(Kind::Rs), None][ci % 3];
        let (l1, _) = enc_event(ctx, "default", layer, k, r, &orig, None, false);
        let ded = if dr == "high" { Kind::High } else { Kind::Low };
        let (l2, _) = enc_event(ctx, "naive", Some(ded), k, r, &orig, None, false);
        let here = ctx.trace.lines as i64 + 1;
        ctx.trace.line(&Obj::new().str("ev", "same").int("g", 10000 + ci as i64).int("a", l1 as i64 - here).int("b", l2 as i64 - here).done());
        ctx.group = None;
        let reference = crate::dut::ref_encode(dr, k, r, &orig);
        let pats = patterns(&mut rng, k, r, 1);
        dec_event(ctx, "default", layer, k, r, &orig, &reference, &pats[1], &[0, k - 1, k]);
    }
}

pub fn main(args: &Args) -> i32 {
    let seed = args.num("seed", 1);
    let out = args.req("out");
    let mut engines = usable_engines();
    if let Some(e) = args.get("engines") {
        engines.retain(|x| e.split(',').any(|y| y == *x));
    }
    let mut ctx = Ctx {
        seed,
        trace: Trace::create(out),
        thorough: args.thorough(),
        engines,
        counter: 0,
        group: None,
        prior: None,
        stats: Default::default(),
    };
    for fam in args.req("family").split(',') {
        ctx.group = None;
        match fam {
            "c02" => family_c02(&mut ctx),
            "c01" => family_c01(&mut ctx),
            "c03" => family_c03(&mut ctx),
            "c04" => family_c04(&mut ctx),
            "c08" => family_c08(&mut ctx),
            "c09" => family_c09(&mut ctx),
            "c10" => family_c10(&mut ctx),
            "twins" => {
                family_twins(&mut ctx);
                family_rate_swap(&mut ctx);
            }
            "c11" => family_c11(&mut ctx),
            "c12" => family_c12(&mut ctx),
            "c13" => {
                family_c13(&mut ctx);
                family_c13_large(&mut ctx);
            }
            other => {
                eprintln!("unknown family {other}");
                return 2;
            }
        }
    }
    let lines = ctx.trace.finish();
    let stats: Vec<String> = ctx
        .stats
        .iter()
        .map(|(k, v)| format!("\"{k}\":{v}"))
        .collect();
    println!(
        "{{\"events\":{},\"seed\":{},\"stats\":{{{}}}}}",
        lines,
        seed,
        stats.join(",")
    );
    let _ = (decode_round::<reed_solomon_simd::engine::Naive>, <reed_solomon_simd::engine::Naive as MkEngine>::NAME);
    0
}
