//! Driver "code": executes encode / decode rounds on the real code and records them as
//! events for Trace_Code.tla, which evaluates the closed-form code over GF(2^16).
//!
//! Families (--family): c02 (recovery = closed form), c13 (linearity), c04 (every even size,
//! every slot), c01 (decode restores the originals).

use crate::dut::Kind;
use crate::engines::{usable_engines, MkEngine};
use crate::ops::{self, decode_round, encode_round, kind_name};
use crate::util::{self, arr_json, bytes_json, Obj, Trace};
use crate::{with_engine, Args};
use rand::seq::SliceRandom;
use rand::Rng;
use std::collections::BTreeSet;

pub struct Ctx {
    pub seed: u64,
    pub trace: Trace,
    pub thorough: bool,
    pub engines: Vec<&'static str>,
    pub counter: u64,
    pub stats: std::collections::BTreeMap<String, u64>,
}

impl Ctx {
    fn bump(&mut self, k: &str) {
        *self.stats.entry(k.to_string()).or_insert(0) += 1;
    }
    fn next_id(&mut self) -> u64 {
        self.counter += 1;
        self.counter
    }
}

fn shards_json(v: &[Vec<u8>]) -> String {
    let items: Vec<String> = v.iter().map(|s| bytes_json(s)).collect();
    arr_json(&items)
}

pub fn originals(seed: u64, tag: u64, k: usize, sb: usize) -> Vec<Vec<u8>> {
    (0..k)
        .map(|i| util::payload(seed, tag, i as u64, sb))
        .collect()
}

/// The dedicated rate a (kind) object used for (k, r), as reported by the code itself.
fn rate_used(kind: Option<Kind>, k: usize, r: usize) -> &'static str {
    match kind {
        Some(Kind::High) => "high",
        Some(Kind::Low) => "low",
        _ => ops::default_rate_of(k, r).unwrap_or("none"),
    }
}

/// Recovery indexes logged for a large round: both ends, chunk edges and a seeded sample.
fn sample_js(r: usize, m: usize, seed: u64, n: usize) -> Vec<usize> {
    let mut s: BTreeSet<usize> = [0, 1, r - 1, r.saturating_sub(2), m - 1, m, m + 1, r / 2]
        .into_iter()
        .filter(|j| *j < r)
        .collect();
    let mut rng = util::rng(seed, 77);
    while s.len() < n.min(r) {
        s.insert(rng.gen_range(0..r));
    }
    s.into_iter().collect()
}

/// Records one encode round. Returns the trace line number (1-based) of the event.
/// Dense originals unless `nz` lists the only non-zero originals; recovery shards are logged
/// completely when small, else on a sample of indexes ("recj").
#[allow(clippy::too_many_arguments)]
pub fn enc_event(
    ctx: &mut Ctx,
    engine: &str,
    kind: Option<Kind>,
    k: usize,
    r: usize,
    orig: &[Vec<u8>],
    nz: Option<&[usize]>,
    all_slots: bool,
) -> (usize, Option<Vec<Vec<u8>>>) {
    ops::poison_on(ctx.seed ^ ctx.counter);
    let res = with_engine!(engine, E, { encode_round::<E>(kind, k, r, orig) });
    let sb = orig.first().map_or(0, Vec::len);
    let id = ctx.next_id();
    let rate = rate_used(kind, k, r);
    let mut o = Obj::new()
        .str("ev", "enc")
        .int("id", id as i64)
        .str("impl", "crate")
        .str("kind", kind_name(kind))
        .str("engine", engine)
        .str("rate", rate)
        .us("k", k)
        .us("r", r)
        .us("sb", sb)
        .int("hint", (ctx.seed.wrapping_mul(31).wrapping_add(id * 7) % 1000) as i64)
        .bool("all", all_slots);
    if let Some(nz) = nz {
        let dense: Vec<Vec<u8>> = nz.iter().map(|i| orig[*i].clone()).collect();
        o = o.uss("nz", nz.iter()).raw("orignz", &shards_json(&dense));
    } else {
        o = o.raw("orig", &shards_json(orig));
    }
    let out = match res {
        Ok(rec) => {
            if rec.len() * sb.max(1) <= 8192 || rec.len() != r {
                o = o.raw("rec", &shards_json(&rec));
            } else {
                let m = if rate == "high" {
                    r.next_power_of_two()
                } else {
                    k.next_power_of_two()
                };
                let items: Vec<String> = sample_js(r, m, ctx.seed ^ id, 48)
                    .into_iter()
                    .map(|j| format!("[{},{}]", j, bytes_json(&rec[j])))
                    .collect();
                o = o.raw("recj", &arr_json(&items));
            }
            Some(rec)
        }
        Err(f) => {
            o = o.raw("fail", &f);
            None
        }
    };
    ctx.trace.line(&o.done());
    ctx.bump(&format!("enc/{}/{}", kind_name(kind), engine));
    (ctx.trace.lines, out)
}

/// Same round on the ancestor crate reed-solomon-16 0.1.0 (shard sizes that are multiples of 64).
fn enc_event_rs16(ctx: &mut Ctx, k: usize, r: usize, orig: &[Vec<u8>]) {
    let sb = orig[0].len();
    let res = std::panic::catch_unwind(|| reed_solomon_16::encode(k, r, orig));
    let id = ctx.next_id();
    let mut o = Obj::new()
        .str("ev", "enc")
        .int("id", id as i64)
        .str("impl", "rs16-0.1.0")
        .str("kind", "oneshot")
        .str("engine", "rs16")
        .str("rate", rate_used(None, k, r))
        .us("k", k)
        .us("r", r)
        .us("sb", sb)
        .int("hint", (id * 13 % 1000) as i64)
        .bool("all", false)
        .raw("orig", &shards_json(orig));
    match res {
        Ok(Ok(rec)) => o = o.raw("rec", &shards_json(&rec)),
        Ok(Err(e)) => o = o.raw("fail", &Obj::new().str("err", &format!("{e:?}")).done()),
        Err(_) => o = o.raw("fail", &util::panic_json("rs16 panic")),
    }
    ctx.trace.line(&o.done());
    ctx.bump("enc/rs16");
}

pub fn high_ok(k: usize, r: usize) -> bool {
    crate::dut::supports_rate("high", k, r)
}
pub fn low_ok(k: usize, r: usize) -> bool {
    crate::dut::supports_rate("low", k, r)
}

/// Envelope-boundary and chunk-edge configurations (rate, k, r).
pub fn boundary_configs(thorough: bool) -> Vec<(&'static str, usize, usize)> {
    let mut v = Vec::new();
    let ns: Vec<u32> = if thorough {
        (0..16).collect()
    } else {
        vec![0, 12, 15]
    };
    for n in ns {
        let p = 1usize << n;
        v.push(("high", 65536 - p, p));
        v.push(("low", p, 65536 - p));
    }
    v.push(("high", 32768, 32768));
    v.push(("low", 32768, 32768));
    // chunk-multiple edges at moderate size
    for m in [4usize, 64, 1024] {
        for (k, r) in [
            (m, m),
            (m + 1, m),
            (2 * m, m),
            (2 * m + 1, m - 1),
            (3 * m - 1, m),
            (3 * m + 1, m / 2 + 1),
        ] {
            if high_ok(k, r) {
                v.push(("high", k, r));
            }
            if low_ok(r, k) {
                v.push(("low", r, k));
            }
        }
    }
    v
}

const SIZES: [usize; 12] = [2, 4, 6, 30, 32, 34, 62, 64, 66, 126, 128, 130];

fn family_c02(ctx: &mut Ctx) {
    let engines = ctx.engines.clone();
    let mut rng = util::rng(ctx.seed, 2);
    // (1) every (k, r) <= 16 x 16 of both rates
    let mut idx = 0usize;
    for rate in ["high", "low"] {
        for k in 1..=16usize {
            for r in 1..=16usize {
                if !crate::dut::supports_rate(rate, k, r) {
                    continue;
                }
                idx += 1;
                let dr = ops::default_rate_of(k, r).unwrap_or("none");
                let combos: Vec<(&str, Option<Kind>)> = if ctx.thorough {
                    let mut c = Vec::new();
                    for e in &engines {
                        for kd in ops::kinds_for(rate, dr, e) {
                            c.push((*e, kd));
                        }
                    }
                    c
                } else {
                    let e = engines[(idx + ctx.seed as usize) % engines.len()];
                    let kinds = ops::kinds_for(rate, dr, e);
                    vec![(e, kinds[(idx / engines.len()) % kinds.len()])]
                };
                for (e, kd) in combos {
                    let sb = *[2usize, 2, 4, 6, 34, 66].choose(&mut rng).unwrap();
                    let tag = ctx.counter;
                    let orig = originals(ctx.seed, tag, k, sb);
                    enc_event(ctx, e, kd, k, r, &orig, None, false);
                }
            }
        }
    }
    // (2) random (k, r) up to 300, log-uniform
    let n = if ctx.thorough { 400 } else { 40 };
    for _ in 0..n {
        let k = (2f64.powf(rng.gen_range(0.0..8.3)) as usize).clamp(1, 300);
        let r = (2f64.powf(rng.gen_range(0.0..8.3)) as usize).clamp(1, 300);
        let rate = if rng.gen_bool(0.5) { "high" } else { "low" };
        if !crate::dut::supports_rate(rate, k, r) {
            continue;
        }
        let dr = ops::default_rate_of(k, r).unwrap_or("none");
        let e = *engines.choose(&mut rng).unwrap();
        let kinds = ops::kinds_for(rate, dr, e);
        let kd = *kinds.choose(&mut rng).unwrap();
        let sb = *[2usize, 4, 62, 64, 66].choose(&mut rng).unwrap();
        let orig = originals(ctx.seed, ctx.counter, k, sb);
        enc_event(ctx, e, kd, k, r, &orig, None, false);
    }
    // (3) boundary configurations: random data (sampled recovery indexes) and unit vectors (all of them)
    for (bi, (rate, k, r)) in boundary_configs(ctx.thorough).into_iter().enumerate() {
        let dr = ops::default_rate_of(k, r).unwrap_or("none");
        let m = if rate == "high" {
            r.next_power_of_two()
        } else {
            k.next_power_of_two()
        };
        // dense random data (all originals logged) for small k or a few large ones
        if k <= 4096 || ctx.thorough || bi < 2 {
            let e = *engines.choose(&mut rng).unwrap();
            let kd = *ops::kinds_for(rate, dr, e).choose(&mut rng).unwrap();
            let orig = originals(ctx.seed, ctx.counter, k, 2);
            enc_event(ctx, e, kd, k, r, &orig, None, false);
        }
        // sparse data: a handful of non-zero originals spread over chunk edges
        {
            let mut nz: BTreeSet<usize> = [0, 1, m - 1, m, m + 1, 2 * m, k - 1, k / 2]
                .into_iter()
                .filter(|i| *i < k)
                .collect();
            for _ in 0..4 {
                nz.insert(rng.gen_range(0..k));
            }
            let nz: Vec<usize> = nz.into_iter().collect();
            let mut orig = vec![vec![0u8; 2]; k];
            for i in &nz {
                let v: u16 = rng.gen_range(1..=u16::MAX);
                orig[*i] = vec![v as u8, (v >> 8) as u8];
            }
            let e = *engines.choose(&mut rng).unwrap();
            let kd = *ops::kinds_for(rate, dr, e).choose(&mut rng).unwrap();
            enc_event(ctx, e, kd, k, r, &orig, Some(&nz), false);
        }
        // unit vectors: single columns of G
        let mut cols: Vec<usize> = [0, m - 1, m, k - 1, rng.gen_range(0..k)]
            .into_iter()
            .filter(|i| *i < k)
            .collect::<BTreeSet<usize>>()
            .into_iter()
            .collect();
        if !ctx.thorough {
            cols.shuffle(&mut rng);
            cols.truncate(2);
        }
        for i in cols {
            let mut orig = vec![vec![0u8; 2]; k];
            let v: u16 = rng.gen_range(1..=u16::MAX);
            orig[i] = vec![v as u8, (v >> 8) as u8];
            let e = *engines.choose(&mut rng).unwrap();
            let kd = *ops::kinds_for(rate, dr, e).choose(&mut rng).unwrap();
            enc_event(ctx, e, kd, k, r, &orig, Some(&[i]), false);
        }
    }
    // (4) ancestor crate, sizes multiple of 64
    let n = if ctx.thorough { 200 } else { 30 };
    for t in 0..n {
        let k = (2f64.powf(rng.gen_range(0.0..6.0)) as usize).clamp(1, 64);
        let r = (2f64.powf(rng.gen_range(0.0..6.0)) as usize).clamp(1, 64);
        let sb = if t % 3 == 0 { 128 } else { 64 };
        let orig = originals(ctx.seed, ctx.counter, k, sb);
        enc_event_rs16(ctx, k, r, &orig);
    }
}

pub fn main(args: &Args) -> i32 {
    let seed = args.num("seed", 1);
    let out = args.req("out");
    let mut engines = usable_engines();
    if let Some(e) = args.get("engines") {
        engines.retain(|x| e.split(',').any(|y| y == *x));
    }
    let mut ctx = Ctx {
        seed,
        trace: Trace::create(out),
        thorough: args.thorough(),
        engines,
        counter: 0,
        stats: Default::default(),
    };
    match args.req("family") {
        "c02" => family_c02(&mut ctx),
        other => {
            eprintln!("unknown family {other}");
            return 2;
        }
    }
    let lines = ctx.trace.finish();
    let stats: Vec<String> = ctx
        .stats
        .iter()
        .map(|(k, v)| format!("\"{k}\":{v}"))
        .collect();
    println!(
        "{{\"events\":{},\"seed\":{},\"stats\":{{{}}}}}",
        lines,
        seed,
        stats.join(",")
    );
    let _ = (decode_round::<reed_solomon_simd::engine::Naive>, <reed_solomon_simd::engine::Naive as MkEngine>::NAME);
    0
}
