//! Driver "prims": engine primitives and lookup tables, recorded for Trace_Prim.tla.
//!
//!   table   - chunks of the public Exp / Log / Skew / LogWalsh / Mul16 / Mul128 tables
//!   mul     - probe blocks multiplied by g^log_m, per engine
//!   fft / ifft - small transforms with the symbols of two slots per position, per engine
//!   evalpoly   - erasure-locator evaluation on mark sets, sampled points, per engine
//!   xcase   - one primitive call executed by EVERY engine from identical input: per-position digests

use crate::engines::{usable_engines, MkEngine};
use crate::util::{self, arr_json, bytes_json, Obj, Trace};
use crate::{with_engine, Args};
use rand::seq::SliceRandom;
use rand::Rng;
use reed_solomon_simd::engine::{tables, Engine, ShardsRefMut, GF_ORDER};
use std::collections::BTreeSet;

type Block = [u8; 64];

fn ints(v: impl IntoIterator<Item = i64>) -> String {
    let items: Vec<String> = v.into_iter().map(|x| x.to_string()).collect();
    arr_json(&items)
}

// ----------------------------------------------------------------------
// tables

fn tables_family(t: &mut Trace, seed: u64, thorough: bool) {
    let el = &*tables::EXP_LOG;
    let chunk = 4096;
    for off in (0..GF_ORDER).step_by(chunk) {
        t.line(&Obj::new().str("ev", "table").str("name", "exp").us("off", off).raw("vals", &ints(el.exp[off..off + chunk].iter().map(|x| i64::from(*x)))).done());
        t.line(&Obj::new().str("ev", "table").str("name", "log").us("off", off).raw("vals", &ints(el.log[off..off + chunk].iter().map(|x| i64::from(*x)))).done());
        let lw = &*tables::LOG_WALSH;
        t.line(&Obj::new().str("ev", "table").str("name", "logwalsh").us("off", off).raw("vals", &ints(lw[off..off + chunk].iter().map(|x| i64::from(*x)))).done());
        let sk = &*tables::SKEW;
        let end = (off + chunk).min(sk.len());
        t.line(&Obj::new().str("ev", "table").str("name", "skew").us("off", off).raw("vals", &ints(sk[off..end].iter().map(|x| i64::from(*x)))).done());
    }
    // multiplication tables: boundary multipliers plus a seeded sample (thorough: many more)
    let mut rng = util::rng(seed, 0x7ab);
    let mut lms: BTreeSet<usize> = [0usize, 1, 2, 15, 16, 255, 256, 4095, 4096, 32767, 32768, 65533, 65534, 65535].into_iter().collect();
    let n = if thorough { 2048 } else { 192 };
    while lms.len() < n {
        lms.insert(rng.gen_range(0..GF_ORDER));
    }
    let m16 = &*tables::MUL16;
    let m128 = &*tables::MUL128;
    for lm in lms {
        let rows: Vec<String> = m16[lm].iter().map(|row| ints(row.iter().map(|x| i64::from(*x)))).collect();
        t.line(&Obj::new().str("ev", "table").str("name", "mul16").us("lm", lm).raw("rows", &arr_json(&rows)).done());
        let lo: Vec<String> = m128[lm].lo.iter().map(|x| bytes_json(&x.to_le_bytes())).collect();
        let hi: Vec<String> = m128[lm].hi.iter().map(|x| bytes_json(&x.to_le_bytes())).collect();
        t.line(&Obj::new().str("ev", "table").str("name", "mul128").us("lm", lm).raw("lo", &arr_json(&lo)).raw("hi", &arr_json(&hi)).done());
    }
}

/// Digests of the complete tables as THIS process built them (it may have been started under a restricted CPU affinity:
/// `cpus` is what the process sees).  `base` carries the digests of the unrestricted process of the same run, whose
/// tables TLC validates entry by entry: the tables must not depend on the environment they are built in.
fn tabledig_family(t: &mut Trace, base: Option<&str>) {
    let el = &*tables::EXP_LOG;
    let as_bytes16 = |v: &[u16]| -> Vec<u8> { v.iter().flat_map(|x| x.to_le_bytes()).collect() };
    let mut d = Obj::new();
    d = d.str("exp", &util::fnv_hex(&as_bytes16(&el.exp[..])));
    d = d.str("log", &util::fnv_hex(&as_bytes16(&el.log[..])));
    d = d.str("logwalsh", &util::fnv_hex(&as_bytes16(&tables::LOG_WALSH[..])));
    d = d.str("skew", &util::fnv_hex(&as_bytes16(&tables::SKEW[..])));
    let m16: Vec<u8> = tables::MUL16.iter().flat_map(|lut| lut.iter().flat_map(|row| row.iter().flat_map(|x| x.to_le_bytes()))).collect();
    d = d.str("mul16", &util::fnv_hex(&m16));
    let m128: Vec<u8> = tables::MUL128.iter().flat_map(|lut| lut.lo.iter().chain(lut.hi.iter()).flat_map(|x| x.to_le_bytes())).collect();
    d = d.str("mul128", &util::fnv_hex(&m128));
    let digs = d.done();
    let cpus = std::thread::available_parallelism().map_or(0, std::num::NonZero::get);
    t.line(&Obj::new().str("ev", "tabledig").us("cpus", cpus).raw("digs", &digs).raw("base", base.unwrap_or(&digs)).done());
}

// ----------------------------------------------------------------------
// mul

/// Two blocks whose 64 symbols run through all 16 values of every nibble position, xor a seeded mask.
fn probe_blocks(mask: u16) -> Vec<Block> {
    let mut blocks = vec![[0u8; 64]; 2];
    for n in 0..64usize {
        let pos = n / 16;
        let v = (n % 16) as u16;
        let sym = (v << (4 * pos)) ^ mask;
        let (b, l) = (n / 32, n % 32);
        blocks[b][l] = sym as u8;
        blocks[b][l + 32] = (sym >> 8) as u8;
    }
    blocks
}

fn blocks_json(b: &[Block]) -> String {
    let items: Vec<String> = b.iter().map(|x| bytes_json(x)).collect();
    arr_json(&items)
}

fn mul_family(t: &mut Trace, seed: u64, thorough: bool, engines: &[&'static str]) {
    let mut rng = util::rng(seed, 0x3a1);
    let mut lms: BTreeSet<u16> = [0u16, 1, 2, 255, 256, 32767, 32768, 65533, 65534, 65535].into_iter().collect();
    let n = if thorough { 1500 } else { 120 };
    while lms.len() < n {
        lms.insert(rng.gen());
    }
    for lm in lms {
        let mask: u16 = if lm % 3 == 0 { 0 } else { rng.gen() };
        for e in engines {
            let mut blocks = probe_blocks(mask);
            // a third block of random symbols
            let mut r = [0u8; 64];
            rng.fill(&mut r[..]);
            blocks.push(r);
            let input = blocks.clone();
            let res = std::panic::catch_unwind(std::panic::AssertUnwindSafe(|| {
                with_engine!(*e, E, {
                    let eng = E::mk();
                    eng.mul(&mut blocks, lm);
                })
            }));
            let mut o = Obj::new().str("ev", "mul").str("engine", e).int("lm", i64::from(lm)).raw("in", &blocks_json(&input));
            o = match res {
                Ok(()) => o.raw("out", &blocks_json(&blocks)),
                Err(p) => o.raw("fail", &util::panic_json(&util::panic_message(&*p))),
            };
            t.line(&o.done());
        }
    }
}

// ----------------------------------------------------------------------
// fft / ifft

fn sym_at(b: &Block, slot: usize) -> u16 {
    u16::from(b[slot]) | (u16::from(b[slot + 32]) << 8)
}

struct XfCase {
    prim: &'static str,
    nsh: usize,
    pos: usize,
    size: usize,
    trunc: usize,
    delta: usize,
    len64: usize,
}

fn run_xf<E: MkEngine>(c: &XfCase, data: &mut [Block]) {
    let eng = E::mk();
    let mut sh = ShardsRefMut::new(c.nsh, c.len64, data);
    if c.prim == "fft" {
        eng.fft(&mut sh, c.pos, c.size, c.trunc, c.delta);
    } else {
        eng.ifft(&mut sh, c.pos, c.size, c.trunc, c.delta);
    }
}

fn xf_cases(rng: &mut impl Rng, thorough: bool) -> Vec<XfCase> {
    let mut v = Vec::new();
    for prim in ["fft", "ifft"] {
        for size in [1usize, 2, 4, 8, 16, 32] {
            let truncs: Vec<usize> = if thorough || size <= 8 { (1..=size).collect() } else { vec![1, 2, size / 2 - 1, size / 2, size / 2 + 1, size - 1, size] };
            for trunc in truncs {
                let deltas: Vec<usize> = if thorough {
                    vec![0, size, 3 * size, 32768, 65536 - 2 * size, 65536 - size]
                } else {
                    vec![0, size, 65536 - size, size * rng.gen_range(2..(65536 / size))]
                };
                for delta in deltas {
                    let pos = *[0usize, size, 3 * size].choose(rng).unwrap();
                    // the skew table has 65535 entries: index r + dist + delta - 1 must stay below that
                    if delta + size > 65536 {
                        continue;
                    }
                    v.push(XfCase { prim, nsh: pos + size + 2, pos, size, trunc, delta, len64: 1 });
                }
            }
        }
    }
    v
}

fn xf_family(t: &mut Trace, seed: u64, thorough: bool, engines: &[&'static str]) {
    let mut rng = util::rng(seed, 0xff7);
    for (ci, c) in xf_cases(&mut rng, thorough).iter().enumerate() {
        let mut input = vec![[0u8; 64]; c.nsh];
        for b in input.iter_mut() {
            rng.fill(&mut b[..]);
        }
        if c.prim == "ifft" {
            // the contract determines all outputs when the inputs beyond trunc are zero
            for q in c.pos + c.trunc..c.pos + c.size {
                input[q] = [0u8; 64];
            }
        }
        let engs: Vec<&'static str> = if thorough { engines.to_vec() } else { vec![engines[ci % engines.len()], engines[(ci + 3) % engines.len()]] };
        for e in engs {
            let mut data = input.clone();
            let res = std::panic::catch_unwind(std::panic::AssertUnwindSafe(|| with_engine!(e, E, { run_xf::<E>(c, &mut data) })));
            let slots = [0usize, 17];
            let mut o = Obj::new()
                .str("ev", c.prim)
                .str("engine", e)
                .us("nsh", c.nsh)
                .us("pos", c.pos)
                .us("size", c.size)
                .us("trunc", c.trunc)
                .us("delta", c.delta);
            for (si, s) in slots.iter().enumerate() {
                o = o.raw(&format!("in{si}"), &ints(input.iter().map(|b| i64::from(sym_at(b, *s)))));
            }
            o = match res {
                Ok(()) => {
                    for (si, s) in slots.iter().enumerate() {
                        o = o.raw(&format!("out{si}"), &ints(data.iter().map(|b| i64::from(sym_at(b, *s)))));
                    }
                    o
                }
                Err(p) => o.raw("fail", &util::panic_json(&util::panic_message(&*p))),
            };
            t.line(&o.done());
        }
    }
}

/// Large transforms against the contract through impulse responses: the FFT of the coefficient vector v*e_i is
/// v * X_i(skew_delta + p), which the specification evaluates cheaply for any size; the IFFT of those values must
/// be the impulse again.  (By linearity every defect of a transform shows in some impulse response.)
fn impulse_family(t: &mut Trace, seed: u64, thorough: bool, engines: &[&'static str]) {
    let mut rng = util::rng(seed, 0x1a9);
    let sizes: Vec<usize> = if thorough { vec![64, 128, 256, 512, 1024, 2048, 4096, 8192, 16384, 32768, 65536] } else { vec![128, 512, 2048, 8192, 32768] };
    for (si, size) in sizes.iter().enumerate() {
        let size = *size;
        let per = if thorough { 6 } else { 3 };
        for n in 0..per {
            let i = match n {
                0 => size - 1,
                1 => size / 2 + 1,
                _ => rng.gen_range(0..size),
            };
            let v: u16 = rng.gen_range(1..=u16::MAX);
            let delta = if size == 65536 { 0 } else { size * rng.gen_range(0..(65536 / size)) };
            let delta = if n == 0 && size < 65536 { 65536 - size } else { delta };
            let pos = if size >= 32768 { 0 } else { *[0usize, size].choose(&mut rng).unwrap() };
            let trunc = match n {
                0 => size,
                1 => size - 1,
                _ => rng.gen_range(1..=size),
            };
            let nsh = pos + size + 1;
            let e = engines[(si + n + seed as usize) % engines.len()];
            // fft of the impulse
            let mut input = vec![[0u8; 64]; nsh];
            for slot in [0usize, 31] {
                input[pos + i][slot] = v as u8;
                input[pos + i][slot + 32] = (v >> 8) as u8;
            }
            let c = XfCase { prim: "fft", nsh, pos, size, trunc, delta, len64: 1 };
            let mut data = input.clone();
            let res = std::panic::catch_unwind(std::panic::AssertUnwindSafe(|| with_engine!(e, E, { run_xf::<E>(&c, &mut data) })));
            let mut o = Obj::new().str("ev", "impulse").str("prim", "fft").str("engine", e).us("nsh", nsh).us("pos", pos).us("size", size).us("trunc", trunc).us("delta", delta).us("i", i).int("v", i64::from(v));
            o = match res {
                Ok(()) => o.raw("out0", &ints(data.iter().map(|b| i64::from(sym_at(b, 0))))).raw("out1", &ints(data.iter().map(|b| i64::from(sym_at(b, 31))))),
                Err(p) => o.raw("fail", &util::panic_json(&util::panic_message(&*p))),
            };
            t.line(&o.done());
            // ifft of the full value vector (produced by the reference engine; the specification re-checks it) must be the impulse
            if n < 2 {
                let mut vals = input.clone();
                let cfull = XfCase { prim: "fft", nsh, pos, size, trunc: size, delta, len64: 1 };
                run_xf::<reed_solomon_simd::engine::Naive>(&cfull, &mut vals);
                let ci = XfCase { prim: "ifft", nsh, pos, size, trunc: size, delta, len64: 1 };
                let mut data = vals.clone();
                let res = std::panic::catch_unwind(std::panic::AssertUnwindSafe(|| with_engine!(e, E, { run_xf::<E>(&ci, &mut data) })));
                let mut o = Obj::new().str("ev", "impulse").str("prim", "ifft").str("engine", e).us("nsh", nsh).us("pos", pos).us("size", size).us("trunc", size).us("delta", delta).us("i", i).int("v", i64::from(v))
                    .raw("in0", &ints(vals.iter().map(|b| i64::from(sym_at(b, 0)))));
                o = match res {
                    Ok(()) => o.raw("out0", &ints(data.iter().map(|b| i64::from(sym_at(b, 0))))).raw("out1", &ints(data.iter().map(|b| i64::from(sym_at(b, 31))))),
                    Err(p) => o.raw("fail", &util::panic_json(&util::panic_message(&*p))),
                };
                t.line(&o.done());
            }
        }
    }
}

// ----------------------------------------------------------------------
// eval_poly

fn run_eval<E: MkEngine>(er: &mut [u16; GF_ORDER], trunc: usize) {
    E::eval_poly(er, trunc);
}

fn mark_sets(rng: &mut impl Rng, thorough: bool) -> Vec<Vec<usize>> {
    let mut v: Vec<Vec<usize>> = vec![
        vec![0],
        vec![1],
        vec![65535],
        vec![0, 1],
        vec![0, 65535],
        vec![1, 2, 3],
        (0..12).collect(),
        (0..64).step_by(3).collect(),
        vec![4096, 4097, 8191],
    ];
    let n = if thorough { 60 } else { 10 };
    for _ in 0..n {
        let cnt = rng.gen_range(1..400);
        let hi = *[64usize, 1024, 65536].choose(rng).unwrap();
        let s: BTreeSet<usize> = (0..cnt).map(|_| rng.gen_range(0..hi)).collect();
        v.push(s.into_iter().collect());
    }
    // decoder-shaped sets: everything from some point on (low rate), a gap (high rate)
    v.push((65000..65536).collect());
    v.push((100..128).chain(130..700).collect());
    v
}

fn eval_family(t: &mut Trace, seed: u64, thorough: bool, engines: &[&'static str]) {
    let mut rng = util::rng(seed, 0xe7a);
    for (mi, marks) in mark_sets(&mut rng, thorough).into_iter().enumerate() {
        let top = *marks.iter().max().unwrap() + 1;
        // every truncated_size that covers the marks must give the same answer
        let mut truncs: Vec<usize> = vec![top, GF_ORDER, (top + 1).min(GF_ORDER), top.next_multiple_of(4).min(GF_ORDER)];
        truncs.push(rng.gen_range(top..=GF_ORDER));
        truncs.sort_unstable();
        truncs.dedup();
        let mut pts: BTreeSet<usize> = marks.iter().copied().take(40).collect();
        pts.extend([0usize, 1, 2, 65535, 65534, 32768]);
        let npts = if marks.len() <= 12 { 600 } else { 150 };
        while pts.len() < npts {
            pts.insert(rng.gen_range(0..GF_ORDER));
        }
        for (ti, trunc) in truncs.iter().enumerate() {
            let engs: Vec<&'static str> = if thorough { engines.to_vec() } else { vec![engines[(mi + ti) % engines.len()]] };
            for e in engs {
                let mut er = Box::new([0u16; GF_ORDER]);
                for m in &marks {
                    er[*m] = 1;
                }
                let res = std::panic::catch_unwind(std::panic::AssertUnwindSafe(|| with_engine!(e, E, { run_eval::<E>(&mut er, *trunc) })));
                let mut o = Obj::new().str("ev", "evalpoly").str("engine", e).us("trunc", *trunc).uss("marks", marks.iter());
                o = match res {
                    Ok(()) => {
                        let items: Vec<String> = pts.iter().map(|x| format!("[{},{}]", x, er[*x])).collect();
                        o.raw("pts", &arr_json(&items)).str("dig", &util::fnv_hex(unsafe { std::slice::from_raw_parts(er.as_ptr().cast::<u8>(), GF_ORDER * 2) }))
                    }
                    Err(p) => o.raw("fail", &util::panic_json(&util::panic_message(&*p))),
                };
                t.line(&o.done());
            }
        }
    }
}

// ----------------------------------------------------------------------
// xcase: every engine from identical input (C03)

fn digests(data: &[Block], len64: usize) -> String {
    let items: Vec<String> = data.chunks(len64).map(|sh| format!("\"{}\"", util::fnv_hex(sh.as_flattened()))).collect();
    arr_json(&items)
}

/// Large cases: one digest per region [0,lo) [lo,hi) [hi,nsh) instead of one per position.
fn region_digests(data: &[Block], len64: usize, lo: usize, hi: usize) -> String {
    let d = |a: usize, b: usize| format!("\"{}\"", util::fnv_hex(data[a * len64..b * len64].as_flattened()));
    let n = data.len() / len64;
    format!("[{},{},{}]", d(0, lo), d(lo, hi), d(hi, n))
}

/// Runs `f` on a copy of `input` that starts at an address congruent to `want` modulo 64 (`[u8; 64]` has alignment 1: a
/// caller-owned working space may sit anywhere), and returns the copy afterwards.
fn on_misaligned(input: &[Block], want: usize, f: impl FnOnce(&mut [Block])) -> Vec<Block> {
    let n = input.len();
    let mut raw = vec![0u8; n * 64 + 128];
    let base = raw.as_ptr() as usize;
    let off = (want + 64 - base % 64) % 64;
    let (chunks, _) = raw[off..off + n * 64].as_chunks_mut::<64>();
    chunks.copy_from_slice(input);
    f(chunks);
    chunks.to_vec()
}

fn xcase_family(t: &mut Trace, seed: u64, thorough: bool, engines: &[&'static str]) {
    let mut rng = util::rng(seed, 0xc03);
    let mut cases: Vec<XfCase> = Vec::new();
    // small grid
    for prim in ["fft", "ifft"] {
        for size in [1usize, 2, 4, 8, 16, 32, 64] {
            let truncs: Vec<usize> = if thorough { (1..=size).collect() } else { vec![1, (size / 2).max(1), size.saturating_sub(1).max(1), size] };
            for trunc in truncs {
                // skew offsets: the ones the codecs use (0, multiples of size, the last legal one) and arbitrary
                // ones - the engines must be bit-identical for every offset whose table indexes are in range
                // (largest index used is size + skew_delta - 2, the table has 65535 entries)
                let mut deltas = vec![0usize, size, 65536 - size, 1, rng.gen_range(0..=65536 - size), rng.gen_range(0..4 * size + 2)];
                for d in [size + 1, 2 * size - 1, 3, 5, 7] {
                    if d + size <= 65536 && rng.gen_bool(0.4) {
                        deltas.push(d);
                    }
                }
                for delta in deltas {
                    if delta + size > 65536 {
                        continue;
                    }
                    let pos = *[0usize, size, 3 * size, 5].choose(&mut rng).unwrap();
                    let len64 = rng.gen_range(1..=3);
                    cases.push(XfCase { prim, nsh: pos + size + 2, pos, size, trunc, delta, len64 });
                }
            }
        }
    }
    // large sizes
    let n = if thorough { 60 } else { 10 };
    for i in 0..n {
        let size = 1usize << rng.gen_range(7..=if thorough { 16 } else { 13 });
        let trunc = if i % 3 == 0 { size } else { rng.gen_range(1..=size) };
        let delta = if size == 65536 { 0 } else { size * rng.gen_range(0..(65536 / size)) };
        let pos = if size >= 32768 { 0 } else { *[0usize, size].choose(&mut rng).unwrap() };
        cases.push(XfCase { prim: if i % 2 == 0 { "fft" } else { "ifft" }, nsh: pos + size + 1, pos, size, trunc, delta, len64: 1 });
    }
    for c in &cases {
        let mut input = vec![[0u8; 64]; c.nsh * c.len64];
        for b in input.iter_mut() {
            rng.fill(&mut b[..]);
        }
        if c.prim == "ifft" {
            for q in (c.pos + c.trunc) * c.len64..(c.pos + c.size) * c.len64 {
                input[q] = [0u8; 64];
            }
        }
        // region the contract determines: fft - the first trunc outputs; ifft (inputs beyond trunc zero) - all of them
        let big = c.nsh > 160;
        let (lo, hi) = (c.pos, if c.prim == "fft" { c.pos + c.trunc } else { c.pos + c.size });
        let dig = |d: &[Block]| if big { region_digests(d, c.len64, lo, hi) } else { digests(d, c.len64) };
        let mut o = Obj::new()
            .str("ev", "xcase")
            .str("prim", c.prim)
            .us("nsh", c.nsh)
            .us("pos", c.pos)
            .us("size", c.size)
            .us("trunc", c.trunc)
            .us("delta", c.delta)
            .us("len64", c.len64)
            .bool("big", big)
            .us("lo", lo)
            .us("hi", hi)
            .raw("din", &dig(&input));
        let mut outs = Obj::new();
        let mut fails: Vec<String> = Vec::new();
        for (ei, e) in engines.iter().enumerate() {
            let mut data = input.clone();
            // every other run on a working space at an odd address
            let want = if (ei + c.size + c.trunc) % 2 == 0 { 0 } else { [1usize, 8, 16, 17, 32, 33, 63][(ei + c.delta + c.trunc) % 7] };
            let res = std::panic::catch_unwind(std::panic::AssertUnwindSafe(|| {
                data = on_misaligned(&input, want, |d| with_engine!(*e, E, { run_xf::<E>(c, d) }));
            }));
            // the part of [pos, pos+size) the contract leaves open is not compared: blank it in the big form
            if big {
                for q in hi * c.len64..(c.pos + c.size) * c.len64 {
                    data[q] = input[q];
                }
            }
            outs = match res {
                Ok(()) => outs.raw(e, &dig(&data)),
                Err(p) => {
                    fails.push(format!("{}: {}", e, util::panic_message(&*p)));
                    outs
                }
            };
        }
        o = o.raw("outs", &outs.done());
        if !fails.is_empty() {
            o = o.str("fails", &fails.join("; "));
        }
        t.line(&o.done());
    }
    // mul: whole slices, every engine
    let n = if thorough { 400 } else { 60 };
    for i in 0..n {
        let nblocks = rng.gen_range(1..6);
        let lm: u16 = match i % 5 {
            0 => 65535,
            1 => 0,
            _ => rng.gen(),
        };
        let mut input = vec![[0u8; 64]; nblocks + 2];
        for b in input.iter_mut() {
            rng.fill(&mut b[..]);
        }
        let mut o = Obj::new().str("ev", "xcase").str("prim", "mul").us("nsh", nblocks + 2).us("pos", 1).us("size", nblocks).us("trunc", nblocks).int("lm", i64::from(lm)).us("len64", 1).bool("big", false).raw("din", &digests(&input, 1));
        let mut outs = Obj::new();
        let mut fails: Vec<String> = Vec::new();
        for (ei, e) in engines.iter().enumerate() {
            let mut data = input.clone();
            let want = if (ei + i) % 2 == 0 { 0 } else { [1usize, 8, 16, 17, 32, 33, 63][(ei + i) % 7] };
            let res = std::panic::catch_unwind(std::panic::AssertUnwindSafe(|| {
                data = on_misaligned(&input, want, |d| {
                    with_engine!(*e, E, {
                        let eng = E::mk();
                        eng.mul(&mut d[1..=nblocks], lm);
                    })
                });
            }));
            outs = match res {
                Ok(()) => outs.raw(e, &digests(&data, 1)),
                Err(p) => {
                    fails.push(format!("{}: {}", e, util::panic_message(&*p)));
                    outs
                }
            };
        }
        o = o.raw("outs", &outs.done());
        if !fails.is_empty() {
            o = o.str("fails", &fails.join("; "));
        }
        t.line(&o.done());
    }
    // eval_poly: whole array digests, every engine
    for marks in mark_sets(&mut rng, thorough) {
        let top = *marks.iter().max().unwrap() + 1;
        let trunc = if rng.gen_bool(0.5) { top } else { rng.gen_range(top..=GF_ORDER) };
        let mut o = Obj::new().str("ev", "xcase").str("prim", "evalpoly").us("nsh", 1).us("pos", 0).us("size", 1).us("trunc", trunc).us("len64", 1).bool("big", false).raw("din", "[\"-\"]");
        let mut outs = Obj::new();
        let mut fails: Vec<String> = Vec::new();
        for e in engines {
            let mut er = Box::new([0u16; GF_ORDER]);
            for m in &marks {
                er[*m] = 1;
            }
            let res = std::panic::catch_unwind(std::panic::AssertUnwindSafe(|| with_engine!(*e, E, { run_eval::<E>(&mut er, trunc) })));
            outs = match res {
                Ok(()) => outs.raw(e, &format!("[\"{}\"]", util::fnv_hex(unsafe { std::slice::from_raw_parts(er.as_ptr().cast::<u8>(), GF_ORDER * 2) }))),
                Err(p) => {
                    fails.push(format!("{}: {}", e, util::panic_message(&*p)));
                    outs
                }
            };
        }
        o = o.raw("outs", &outs.done());
        if !fails.is_empty() {
            o = o.str("fails", &fails.join("; "));
        }
        t.line(&o.done());
    }
}

/// Thorough C15: every (symbol, log_m) pair on one engine against the definition applied to the
/// crate's exp/log tables (which Trace_Prim certifies entry by entry in the same check).
fn mul_exhaustive(engines: &[&'static str], threads: usize) -> (u64, Vec<String>) {
    let el = &*tables::EXP_LOG;
    let mut bad: Vec<String> = Vec::new();
    let mut pairs = 0u64;
    for e in engines {
        let chunks: Vec<Vec<u32>> = (0..threads).map(|t| (0..65536u32).skip(t).step_by(threads).collect()).collect();
        let res: Vec<Option<String>> = std::thread::scope(|sc| {
            let hs: Vec<_> = chunks
                .iter()
                .map(|c| {
                    sc.spawn(move || {
                        with_engine!(*e, E, {
                            let eng = E::mk();
                            for lm in c {
                                let lm = *lm as u16;
                                // 65536 symbols = 2048 blocks
                                let mut data = vec![[0u8; 64]; 2048];
                                for s in 0..65536usize {
                                    let (b, l) = (s / 32, s % 32);
                                    data[b][l] = s as u8;
                                    data[b][l + 32] = (s >> 8) as u8;
                                }
                                eng.mul(&mut data, lm);
                                for s in 0..65536usize {
                                    let (b, l) = (s / 32, s % 32);
                                    let got = u16::from(data[b][l]) | (u16::from(data[b][l + 32]) << 8);
                                    // GF!MulLog verbatim: x = 0 ? 0 : exp[(log[x] + log_m) mod 65535]
                                    let want = if s == 0 {
                                        0
                                    } else {
                                        let sum = u32::from(el.log[s]) + u32::from(if lm == 65535 { 0 } else { lm });
                                        el.exp[(sum % 65535) as usize]
                                    };
                                    if got != want {
                                        return Some(format!("{e}: mul(symbol {s}, log_m {lm}) = {got}, definition gives {want}"));
                                    }
                                }
                            }
                            None
                        })
                    })
                })
                .collect();
            hs.into_iter().map(|h| h.join().unwrap()).collect()
        });
        pairs += 1u64 << 32;
        bad.extend(res.into_iter().flatten());
    }
    (pairs, bad)
}

pub fn main(args: &Args) -> i32 {
    let seed = args.num("seed", 1);
    let thorough = args.thorough();
    let mut engines = usable_engines();
    if let Some(e) = args.get("engines") {
        engines.retain(|x| e.split(',').any(|y| y == *x));
    }
    let fam = args.req("family");
    if fam == "mulx" {
        let (pairs, bad) = mul_exhaustive(&engines, args.num("threads", 14) as usize);
        let items: Vec<String> = bad.iter().map(|b| serde_json::to_string(b).unwrap()).collect();
        println!("{{\"pairs\":{},\"bad\":{}}}", pairs, arr_json(&items));
        return i32::from(!bad.is_empty());
    }
    let mut t = Trace::create(args.req("out"));
    for f in fam.split(',') {
        match f {
            "tables" => tables_family(&mut t, seed, thorough),
            "tabledig" => tabledig_family(&mut t, args.get("base")),
            "mul" => mul_family(&mut t, seed, thorough, &engines),
            "xf" => xf_family(&mut t, seed, thorough, &engines),
            "impulse" => impulse_family(&mut t, seed, thorough, &engines),
            "evalpoly" => eval_family(&mut t, seed, thorough, &engines),
            "xcase" => xcase_family(&mut t, seed, thorough, &engines),
            other => {
                eprintln!("unknown family {other}");
                return 2;
            }
        }
    }
    let lines = t.finish();
    println!("{{\"events\":{},\"seed\":{},\"engines\":{}}}", lines, seed, engines.len());
    0
}
