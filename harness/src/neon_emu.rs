//! Emulation of the AArch64 Neon intrinsics used by engine_neon.rs, with the
//! semantics documented by Arm (trusted; listed in the evidence).
#![allow(non_camel_case_types, clippy::missing_safety_doc)]

#[derive(Clone, Copy)]
pub struct uint8x16_t(pub [u8; 16]);

#[inline(always)]
pub unsafe fn vld1q_u8(ptr: *const u8) -> uint8x16_t {
    let mut v = [0u8; 16];
    std::ptr::copy_nonoverlapping(ptr, v.as_mut_ptr(), 16);
    uint8x16_t(v)
}

#[inline(always)]
pub unsafe fn vst1q_u8(ptr: *mut u8, a: uint8x16_t) {
    std::ptr::copy_nonoverlapping(a.0.as_ptr(), ptr, 16);
}

#[inline(always)]
pub unsafe fn veorq_u8(a: uint8x16_t, b: uint8x16_t) -> uint8x16_t {
    let mut v = [0u8; 16];
    for i in 0..16 {
        v[i] = a.0[i] ^ b.0[i];
    }
    uint8x16_t(v)
}

#[inline(always)]
pub unsafe fn vandq_u8(a: uint8x16_t, b: uint8x16_t) -> uint8x16_t {
    let mut v = [0u8; 16];
    for i in 0..16 {
        v[i] = a.0[i] & b.0[i];
    }
    uint8x16_t(v)
}

#[inline(always)]
pub unsafe fn vdupq_n_u8(x: u8) -> uint8x16_t {
    uint8x16_t([x; 16])
}

/// Logical shift right of every byte by `n` (1..=8).
#[inline(always)]
pub unsafe fn vshrq_n_u8(a: uint8x16_t, n: i32) -> uint8x16_t {
    assert!((1..=8).contains(&n));
    let mut v = [0u8; 16];
    for i in 0..16 {
        v[i] = if n == 8 { 0 } else { a.0[i] >> n };
    }
    uint8x16_t(v)
}

/// Table lookup: out[i] = t[idx[i]] if idx[i] < 16 else 0.
#[inline(always)]
pub unsafe fn vqtbl1q_u8(t: uint8x16_t, idx: uint8x16_t) -> uint8x16_t {
    let mut v = [0u8; 16];
    for i in 0..16 {
        let j = idx.0[i] as usize;
        v[i] = if j < 16 { t.0[j] } else { 0 };
    }
    uint8x16_t(v)
}
