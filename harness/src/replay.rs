//! Specification -> implementation: replays TLC's state graph of Codec.tla (graph.json) into the
//! real code.  One implementation run per transition (edge coverage), the same with failing calls
//! inserted before the final edge (C07), and seeded random walks (history coverage).  After every
//! step: return value in the allowed set, projection of the real object = target node, bytes of
//! results = a fresh dedicated-rate reference codec on the same shards.
//!
//! Every executed step can also be written as a trace event for Trace_Codec.tla (I -> S).

use crate::alloc;
use crate::dut::{DecObj, EncObj, Kind};
use crate::engines::MkEngine;
use crate::util::{self, Obj, Trace};
use crate::{with_engine, Args};
use rand::seq::SliceRandom;
use rand::Rng;
use serde_json::Value;
use std::collections::{BTreeMap, BTreeSet, HashMap, VecDeque};
use std::panic::{catch_unwind, AssertUnwindSafe};

pub struct Graph {
    pub role: String,
    pub nodes: Vec<Value>,
    pub init: usize,
    pub edges: Vec<(usize, usize, Value)>,
    pub out: Vec<Vec<usize>>, // node -> edge ids
}

impl Graph {
    pub fn load(path: &str) -> Graph {
        let v: Value = serde_json::from_str(&std::fs::read_to_string(path).expect("graph")).expect("graph json");
        let nodes: Vec<Value> = v["nodes"].as_array().unwrap().clone();
        let mut edges = Vec::new();
        let mut out = vec![Vec::new(); nodes.len()];
        for e in v["edges"].as_array().unwrap() {
            let f = e[0].as_u64().unwrap() as usize;
            let t = e[1].as_u64().unwrap() as usize;
            out[f].push(edges.len());
            edges.push((f, t, e[2].clone()));
        }
        Graph {
            role: v["role"].as_str().unwrap().to_string(),
            nodes,
            init: v["init"].as_u64().unwrap() as usize,
            edges,
            out,
        }
    }
    pub fn failing(&self, e: usize) -> bool {
        let s = &self.edges[e].2;
        match s.get("allowed") {
            Some(a) => !a.as_array().unwrap().iter().any(|x| x.get("ok").is_some()),
            None => false,
        }
    }
    /// BFS tree from init over all edges: predecessor edge of every node.
    fn bfs_from_init(&self) -> Vec<Option<usize>> {
        let mut pred = vec![None; self.nodes.len()];
        let mut seen = vec![false; self.nodes.len()];
        let mut q = VecDeque::new();
        seen[self.init] = true;
        q.push_back(self.init);
        while let Some(u) = q.pop_front() {
            for &e in &self.out[u] {
                let v = self.edges[e].1;
                if !seen[v] {
                    seen[v] = true;
                    pred[v] = Some(e);
                    q.push_back(v);
                }
            }
        }
        pred
    }
    fn path_to(&self, pred: &[Option<usize>], mut v: usize) -> Vec<usize> {
        let mut p = Vec::new();
        while let Some(e) = pred[v] {
            p.push(e);
            v = self.edges[e].0;
        }
        p.reverse();
        p
    }
    /// For every node: shortest continuation (edge ids) to a node with a live result followed by
    /// the `iter` edge there; None if no result is reachable without reconfiguring.
    fn to_live(&self) -> Vec<Option<Vec<usize>>> {
        let n = self.nodes.len();
        // reverse BFS from live nodes over non-failing, non-reconfiguring edges
        let mut next: Vec<Option<usize>> = vec![None; n];
        let mut dist = vec![usize::MAX; n];
        let mut rev: Vec<Vec<usize>> = vec![Vec::new(); n];
        for (i, (f, t, s)) in self.edges.iter().enumerate() {
            let act = s["act"].as_str().unwrap();
            if f != t && !self.failing(i) && !matches!(act, "reset" | "rehouse" | "drop") {
                rev[*t].push(i);
            }
        }
        let mut q = VecDeque::new();
        for (v, node) in self.nodes.iter().enumerate() {
            if node["res"] == "live" {
                dist[v] = 0;
                q.push_back(v);
            }
        }
        while let Some(v) = q.pop_front() {
            for &e in &rev[v] {
                let u = self.edges[e].0;
                if dist[u] == usize::MAX {
                    dist[u] = dist[v] + 1;
                    next[u] = Some(e);
                    q.push_back(u);
                }
            }
        }
        (0..n)
            .map(|mut v| {
                if dist[v] == usize::MAX {
                    return None;
                }
                let mut p = Vec::new();
                while let Some(e) = next[v] {
                    p.push(e);
                    v = self.edges[e].1;
                }
                let it = self.out[v]
                    .iter()
                    .copied()
                    .find(|e| self.edges[*e].2["act"] == "iter")?;
                p.push(it);
                Some(p)
            })
            .collect()
    }
}

// ----------------------------------------------------------------------

fn pay_tag(p: &str) -> u64 {
    match p {
        "a" => 1,
        "b" => 2,
        "c" => 3,
        other => 100 + other.len() as u64,
    }
}

fn us(v: &Value) -> usize {
    util::dec(v.as_i64().expect("integer"))
}

pub struct Exec {
    pub seed: u64,
    pub engine: &'static str,
    pub refcache: HashMap<String, Vec<Vec<u8>>>,
    pub steps: u64,
    pub trace: Option<Trace>,
    pub run_id: u64,
    pub measure_alloc: bool,
}

#[derive(Debug)]
pub struct Mismatch {
    pub step: usize,
    pub what: String,
}

/// Data of a decoder round: originals are a function of (seed, k, r, sb, index); recovery is the
/// reference encoder's output at the rate the SPECIFICATION fixed for the node.
fn round_data(x: &mut Exec, rate: &str, k: usize, r: usize, sb: usize) -> (Vec<Vec<u8>>, Vec<Vec<u8>>) {
    let orig: Vec<Vec<u8>> = (0..k)
        .map(|i| util::payload(x.seed, 0xD0 + (k * 131 + r * 17 + sb) as u64, i as u64, sb))
        .collect();
    let key = format!("dec/{rate}/{k}/{r}/{sb}");
    if !x.refcache.contains_key(&key) {
        let rec = crate::dut::ref_encode(rate, k, r, &orig);
        x.refcache.insert(key.clone(), rec);
    }
    (orig, x.refcache[&key].clone())
}

fn enc_reference(x: &mut Exec, rate: &str, k: usize, r: usize, sb: usize, added: &[String]) -> Vec<Vec<u8>> {
    let key = format!("enc/{rate}/{k}/{r}/{sb}/{}", added.join(""));
    if !x.refcache.contains_key(&key) {
        let orig: Vec<Vec<u8>> = added
            .iter()
            .map(|p| util::payload(x.seed, pay_tag(p), 0, sb))
            .collect();
        let rec = crate::dut::ref_encode(rate, k, r, &orig);
        x.refcache.insert(key.clone(), rec);
    }
    x.refcache[&key].clone()
}

fn allowed_set(step: &Value) -> BTreeSet<String> {
    step["allowed"]
        .as_array()
        .map(|a| a.iter().map(util::canon).collect())
        .unwrap_or_default()
}

fn canon_str(s: &str) -> String {
    util::canon(&serde_json::from_str::<Value>(s).unwrap())
}

fn check_ret(step: &Value, ret: &str) -> Result<(), String> {
    let allowed = allowed_set(step);
    if allowed.contains(&canon_str(ret)) {
        Ok(())
    } else {
        Err(format!(
            "return value {} not among the allowed {:?} for call {}",
            ret,
            allowed,
            brief(step)
        ))
    }
}

fn brief(step: &Value) -> String {
    let mut m = serde_json::Map::new();
    for (k, v) in step.as_object().unwrap() {
        if k != "allowed" && k != "may_alloc" && k != "yields" {
            m.insert(k.clone(), v.clone());
        }
    }
    Value::Object(m).to_string()
}

fn set_of(v: &Value) -> BTreeSet<usize> {
    v.as_array().unwrap().iter().map(us).collect()
}

// ----------------------------------------------------------------------
// snapshot comparison

fn enc_snap_json<E: MkEngine>(obj: &EncObj<E>, live: bool) -> (String, Option<(usize, usize, usize)>) {
    let (rate, s) = obj.snap();
    match s {
        None => (
            Obj::new().str("kind", obj.kind().name()).str("rate", rate).bool("missing", true).done(),
            None,
        ),
        Some(s) => (
            Obj::new()
                .str("kind", obj.kind().name())
                .str("rate", rate)
                .us("k", s.original_count)
                .us("r", s.recovery_count)
                .us("sb", s.shard_bytes)
                .us("oc", s.original_received_count)
                .bool("live", live)
                .us("cap", s.data_capacity)
                .us("len", s.data_len)
                .us("wc", s.work_count)
                .done(),
            Some((s.data_ptr, s.data_capacity, 0)),
        ),
    }
}

fn dec_snap_json<E: MkEngine>(obj: &DecObj<E>, live: bool) -> (String, Option<(usize, usize, usize)>) {
    let (rate, s) = obj.snap();
    match s {
        None => (
            Obj::new().str("kind", obj.kind().name()).str("rate", rate).bool("missing", true).done(),
            None,
        ),
        Some(s) => (
            Obj::new()
                .str("kind", obj.kind().name())
                .str("rate", rate)
                .us("k", s.original_count)
                .us("r", s.recovery_count)
                .us("sb", s.shard_bytes)
                .us("oc", s.original_received_count)
                .us("rc", s.recovery_received_count)
                .uss("gotO", s.received_original.iter())
                .uss("gotR", s.received_recovery.iter())
                .us("stray", s.received_elsewhere)
                .bool("live", live)
                .us("cap", s.data_capacity)
                .us("len", s.data_len)
                .us("wc", s.work_count)
                .us("bits", s.bitmap_len)
                .us("obase", s.original_base_pos)
                .us("rbase", s.recovery_base_pos)
                .str("bptr", &format!("{:x}", s.bitmap_ptr))
                .done(),
            Some((s.data_ptr, s.data_capacity, s.bitmap_len)),
        ),
    }
}

/// Compares the snapshot (as JSON) with the target node's projection.
fn check_proj(role: &str, snap: &str, node: &Value) -> Result<(), String> {
    let s: Value = serde_json::from_str(snap).unwrap();
    let bad = |what: &str| Err(format!("object state differs from the specification's ({what}): snapshot {snap} vs node {node}"));
    if s.get("missing").is_some() {
        return bad("inner codec missing");
    }
    if s["kind"] != node["kind"] {
        return bad("kind");
    }
    if s["rate"] != node["rate"] {
        return bad("rate");
    }
    for f in ["k", "r", "sb"] {
        if s[f] != node[f] {
            return bad(f);
        }
    }
    if s["live"].as_bool().unwrap() != (node["res"] == "live") {
        return bad("result liveness");
    }
    // while a result is outstanding the object is mutably borrowed: the round's counters cannot be observed by any
    // call and are not compared (an implementation may clear them when the round completes or when the result is
    // dropped); what `restored_original` depends on - the set of received originals - still is
    let live = node["res"] == "live";
    if role == "enc" {
        if !live && s["oc"].as_u64().unwrap() as usize != node["added"].as_array().unwrap().len() {
            return bad("number of originals added");
        }
    } else if live {
        if set_of(&s["gotO"]) != set_of(&node["gotO"]) {
            return bad("received index sets");
        }
    } else {
        let go = set_of(&node["gotO"]);
        let gr = set_of(&node["gotR"]);
        if set_of(&s["gotO"]) != go || set_of(&s["gotR"]) != gr {
            return bad("received index sets");
        }
        if s["oc"].as_u64().unwrap() as usize != go.len() || s["rc"].as_u64().unwrap() as usize != gr.len() {
            return bad("received counters");
        }
        if s["stray"].as_u64().unwrap() != 0 {
            return bad("stray received bits");
        }
    }
    Ok(())
}

// ----------------------------------------------------------------------
// the executor

pub struct StepRef<'a> {
    pub step: &'a Value,
    pub to: &'a Value,
}

fn trace_event(x: &mut Exec, role: &str, step: &Value, ret: &str, snap: &str, extra: Option<String>, allocs: &[usize], ptr_same: Option<bool>) {
    if x.trace.is_none() {
        return;
    }
    let mut o = Obj::new()
        .str("ev", step["act"].as_str().unwrap())
        .str("role", role)
        .int("run", x.run_id as i64)
        .str("engine", x.engine);
    for f in ["kind", "pay"] {
        if let Some(v) = step.get(f) {
            o = o.str(f, v.as_str().unwrap());
        }
    }
    for f in ["k", "r", "sb", "index", "len"] {
        if let Some(v) = step.get(f) {
            o = o.int(f, v.as_i64().unwrap());
        }
    }
    o = o.raw("ret", ret).raw("snap", snap);
    if let Some(t) = error_text(ret) {
        o = o.str("rettext", &t);
    }
    if let Some(e) = extra {
        o = o.fields(&e);
    }
    if x.measure_alloc {
        o = o.int("abytes", allocs.iter().sum::<usize>() as i64).int("acount", allocs.len() as i64).int("amax", allocs.iter().copied().max().unwrap_or(0) as i64);
        if let Some(p) = ptr_same {
            o = o.bool("ptr_same", p);
        }
    }
    let line = o.done();
    x.trace.as_mut().unwrap().line(&line);
}

/// Display text of the error a return value encodes (rebuilt from the logged fields through the crate's own
/// `impl Display for Error`), None for Ok / panics / values outside the plain integer range.
fn error_text(ret: &str) -> Option<String> {
    use reed_solomon_simd::Error as E;
    let v: Value = serde_json::from_str(ret).ok()?;
    let name = v.get("err")?.as_str()?;
    let f = |k: &str| -> Option<usize> {
        let n = v.get(k)?.as_i64()?;
        if n < 0 {
            None
        } else {
            Some(n as usize)
        }
    };
    let e = match name {
        "DifferentShardSize" => E::DifferentShardSize { shard_bytes: f("shard_bytes")?, got: f("got")? },
        "DuplicateOriginalShardIndex" => E::DuplicateOriginalShardIndex { index: f("index")? },
        "DuplicateRecoveryShardIndex" => E::DuplicateRecoveryShardIndex { index: f("index")? },
        "InvalidOriginalShardIndex" => E::InvalidOriginalShardIndex { original_count: f("original_count")?, index: f("index")? },
        "InvalidRecoveryShardIndex" => E::InvalidRecoveryShardIndex { recovery_count: f("recovery_count")?, index: f("index")? },
        "InvalidShardSize" => E::InvalidShardSize { shard_bytes: f("shard_bytes")? },
        "NotEnoughShards" => E::NotEnoughShards {
            original_count: f("original_count")?,
            original_received_count: f("original_received_count")?,
            recovery_received_count: f("recovery_received_count")?,
        },
        "TooFewOriginalShards" => E::TooFewOriginalShards { original_count: f("original_count")?, original_received_count: f("original_received_count")? },
        "TooManyOriginalShards" => E::TooManyOriginalShards { original_count: f("original_count")? },
        "UnsupportedShardCount" => E::UnsupportedShardCount { original_count: f("original_count")?, recovery_count: f("recovery_count")? },
        _ => return None,
    };
    Some(e.to_string())
}

/// Iterator protocol beyond next(): nth, skip, step_by, last, count on FRESH iterators of the same result.
/// Items are reported by index (decoder) / position (encoder; -2 if the bytes are not those of that position).
pub fn iter_protocol_dec(result: &reed_solomon_simd::DecoderResult<'_>, full: &[(usize, Vec<u8>)]) -> String {
    let n = full.len();
    let idx = |o: Option<(usize, &[u8])>| -> i64 {
        match o {
            None => -1,
            Some((i, b)) => {
                if full.iter().any(|x| x.0 == i && x.1 == b) {
                    i as i64
                } else {
                    -2
                }
            }
        }
    };
    let probes: Vec<usize> = [0usize, 1, 2, n.saturating_sub(1), n, n + 1].into_iter().collect();
    let nth: Vec<String> = probes.iter().map(|k| format!("[{},{}]", k, idx(result.restored_original_iter().nth(*k)))).collect();
    let skip1 = result.restored_original_iter().skip(1).count();
    let step2: Vec<String> = result.restored_original_iter().step_by(2).take(8).map(|x| idx(Some(x)).to_string()).collect();
    let last = idx(result.restored_original_iter().last());
    let cnt = result.restored_original_iter().count();
    let mut it = result.restored_original_iter();
    let _ = it.nth(0);
    let after: i64 = idx(it.next());
    format!(
        "{{\"nth\":{},\"skip1\":{},\"step2\":{},\"last\":{},\"cnt\":{},\"second\":{}}}",
        util::arr_json(&nth),
        skip1,
        util::arr_json(&step2),
        last,
        cnt,
        after
    )
}

pub fn iter_protocol_enc(result: &reed_solomon_simd::EncoderResult<'_>, full: &[Vec<u8>]) -> String {
    let n = full.len();
    let at = |k: usize, o: Option<&[u8]>| -> i64 {
        match o {
            None => -1,
            Some(b) => {
                if full.get(k).map_or(false, |x| x == b) {
                    k as i64
                } else {
                    -2
                }
            }
        }
    };
    let probes: Vec<usize> = [0usize, 1, 2, n.saturating_sub(1), n, n + 1].into_iter().collect();
    let nth: Vec<String> = probes.iter().map(|k| format!("[{},{}]", k, at(*k, result.recovery_iter().nth(*k)))).collect();
    let skip1 = result.recovery_iter().skip(1).count();
    let step2: Vec<String> = result.recovery_iter().step_by(2).take(8).enumerate().map(|(t, b)| at(2 * t, Some(b)).to_string()).collect();
    let last = at(n.saturating_sub(1), result.recovery_iter().last());
    let cnt = result.recovery_iter().count();
    let mut it = result.recovery_iter();
    let _ = it.nth(0);
    let after = at(1, it.next());
    format!(
        "{{\"nth\":{},\"skip1\":{},\"step2\":{},\"last\":{},\"cnt\":{},\"second\":{}}}",
        util::arr_json(&nth),
        skip1,
        util::arr_json(&step2),
        last,
        cnt,
        after
    )
}

/// What the protocol summary must be for a result exposing exactly the (ascending) indexes `ys`.
pub fn expected_protocol(ys: &[usize]) -> String {
    let n = ys.len();
    let get = |k: usize| -> i64 { ys.get(k).map_or(-1, |x| *x as i64) };
    let probes: Vec<usize> = [0usize, 1, 2, n.saturating_sub(1), n, n + 1].into_iter().collect();
    let nth: Vec<String> = probes.iter().map(|k| format!("[{},{}]", k, get(*k))).collect();
    let step2: Vec<String> = ys.iter().step_by(2).take(8).map(|x| x.to_string()).collect();
    format!(
        "{{\"nth\":{},\"skip1\":{},\"step2\":{},\"last\":{},\"cnt\":{},\"second\":{}}}",
        util::arr_json(&nth),
        n.saturating_sub(1),
        util::arr_json(&step2),
        if n == 0 { -1 } else { ys[n - 1] as i64 },
        n,
        get(1)
    )
}

fn digest_items(items: &[(usize, Vec<u8>)]) -> String {
    let v: Vec<String> = items
        .iter()
        .map(|(i, b)| format!("[{},{},\"{}\"]", i, b.len(), util::fnv_hex(b)))
        .collect();
    util::arr_json(&v)
}

macro_rules! guarded {
    ($e:expr) => {
        match catch_unwind(AssertUnwindSafe(|| $e)) {
            Ok(v) => Ok(v),
            Err(p) => Err(util::panic_json(&util::panic_message(&*p))),
        }
    };
}

fn ret_json(r: &Result<(), reed_solomon_simd::Error>) -> String {
    match r {
        Ok(()) => util::OK_JSON.to_string(),
        Err(e) => util::err_json(e),
    }
}

/// encode(), with the panic guard and the allocation log around the call only; the closure works on
/// the live result (the object stays mutably borrowed while it runs).
fn encode_then<E: MkEngine, T>(
    obj: &mut EncObj<E>,
    f: impl FnOnce(&reed_solomon_simd::EncoderResult<'_>, &[usize]) -> T,
) -> (Result<Result<T, reed_solomon_simd::Error>, String>, Vec<usize>) {
    let o: &mut EncObj<E> = obj;
    let (r, allocs) = alloc::measure(move || catch_unwind(AssertUnwindSafe(move || { let o2 = o; o2.encode() })));
    match r {
        Err(p) => (Err(util::panic_json(&util::panic_message(&*p))), allocs),
        Ok(Err(e)) => (Ok(Err(e)), allocs),
        Ok(Ok(res)) => {
            let t = f(&res, &allocs);
            drop(res);
            (Ok(Ok(t)), allocs)
        }
    }
}

fn decode_then<E: MkEngine, T>(
    obj: &mut DecObj<E>,
    f: impl FnOnce(&reed_solomon_simd::DecoderResult<'_>, &[usize]) -> T,
) -> (Result<Result<T, reed_solomon_simd::Error>, String>, Vec<usize>) {
    let o: &mut DecObj<E> = obj;
    let (r, allocs) = alloc::measure(move || catch_unwind(AssertUnwindSafe(move || { let o2 = o; o2.decode() })));
    match r {
        Err(p) => (Err(util::panic_json(&util::panic_message(&*p))), allocs),
        Ok(Err(e)) => (Ok(Err(e)), allocs),
        Ok(Ok(res)) => {
            let t = f(&res, &allocs);
            drop(res);
            (Ok(Ok(t)), allocs)
        }
    }
}

/// An unrelated encoder and decoder (other shape, other loss pattern) doing a full round on this thread:
/// independent objects must not influence the object under test (no hidden global / thread-local state).
fn bystander<E: MkEngine>(seed: u64) {
    let saved = reed_solomon_simd::verif::poison();
    let (k, r, sb) = (5usize, 3usize, 66usize);
    let orig: Vec<Vec<u8>> = (0..k).map(|i| util::payload(seed, 0xB75, i as u64, sb)).collect();
    let Ok(mut e) = EncObj::<E>::new(Kind::Default, k, r, sb) else { return };
    for o in &orig {
        let _ = e.add(o);
    }
    let rec: Vec<Vec<u8>> = match e.encode() {
        Ok(res) => res.recovery_iter().map(<[u8]>::to_vec).collect(),
        Err(_) => return,
    };
    if let Ok(mut d) = DecObj::<E>::new(Kind::Default, k, r, sb) {
        for i in [0usize, 3] {
            let _ = d.add_original(i, &orig[i]);
        }
        for (j, s) in rec.iter().enumerate() {
            let _ = d.add_recovery(j, s);
        }
        let _ = d.decode().map(|res| res.restored_original_iter().count());
    }
    reed_solomon_simd::verif::set_poison(saved);
}

/// Runs a script on a fresh encoder.  `first` describes the initial node (construction).
pub fn run_enc<E: MkEngine>(x: &mut Exec, init: &Value, script: &[StepRef]) -> Result<(), Mismatch> {
    crate::ops::poison_on(x.seed ^ x.steps.wrapping_mul(0x9E37));
    x.run_id += 1;
    let (k0, r0, sb0) = (us(&init["k"]), us(&init["r"]), us(&init["sb"]));
    let kind0 = Kind::parse(init["kind"].as_str().unwrap());
    let made = guarded!(EncObj::<E>::new(kind0, k0, r0, sb0));
    let mut obj = match made {
        Ok(Ok(o)) => o,
        Ok(Err(e)) => return Err(Mismatch { step: 0, what: format!("construction failed: {}", util::err_json(&e)) }),
        Err(p) => return Err(Mismatch { step: 0, what: format!("construction panicked: {p}") }),
    };
    {
        let (snap, _) = enc_snap_json(&obj, false);
        let newstep = serde_json::json!({"act":"new","kind":init["kind"],"k":init["k"],"r":init["r"],"sb":init["sb"]});
        trace_event(x, "enc", &newstep, util::OK_JSON, &snap, None, &[], None);
        check_proj("enc", &snap, init).map_err(|what| Mismatch { step: 0, what })?;
    }
    let mut i = 0;
    while i < script.len() {
        let st = script[i].step;
        let to = script[i].to;
        let act = st["act"].as_str().unwrap();
        x.steps += 1;
        let mm = |what: String| Mismatch { step: i + 1, what };
        match act {
            "reset" | "add" => {
                let before = obj.snap().1.map(|s| (s.data_ptr, s.data_capacity));
                // the shard is produced outside the measured region
                let data = if act == "add" {
                    util::payload(x.seed, pay_tag(st["pay"].as_str().unwrap()), 0, us(&st["len"]))
                } else {
                    Vec::new()
                };
                let (res, allocs) = alloc::measure(|| {
                    guarded!(match act {
                        "reset" => obj.reset(us(&st["k"]), us(&st["r"]), us(&st["sb"])),
                        _ => obj.add(&data),
                    })
                });
                let ret = match &res {
                    Ok(r) => ret_json(r),
                    Err(p) => p.clone(),
                };
                let (snap, after) = enc_snap_json(&obj, false);
                let ptr_same = match (before, after) {
                    (Some(b), Some(a)) => Some(b.0 == a.0 && b.1 == a.1),
                    _ => None,
                };
                trace_event(x, "enc", st, &ret, &snap, None, &allocs, ptr_same);
                check_ret(st, &ret).map_err(mm)?;
                check_proj("enc", &snap, to).map_err(mm)?;
                i += 1;
            }
            "rehouse" => {
                let kd = Kind::parse(st["kind"].as_str().unwrap());
                let before = obj.snap().1.map(|s| (s.data_ptr, s.data_capacity));
                let (res, allocs) = alloc::measure(|| guarded!(obj.rehouse(kd, us(&st["k"]), us(&st["r"]), us(&st["sb"]))));
                match res {
                    Ok(Ok(o)) => obj = o,
                    Ok(Err(e)) => return Err(mm(format!("rehouse the specification allows failed: {} ({})", util::err_json(&e), brief(st)))),
                    Err(p) => return Err(mm(format!("rehouse panicked: {p} ({})", brief(st)))),
                }
                let (snap, after) = enc_snap_json(&obj, false);
                let ptr_same = match (before, after) {
                    (Some(b), Some(a)) => Some(b.0 == a.0 && b.1 == a.1),
                    _ => None,
                };
                trace_event(x, "enc", st, util::OK_JSON, &snap, None, &allocs, ptr_same);
                check_proj("enc", &snap, to).map_err(mm)?;
                i += 1;
            }
            "encode" => {
                // expected bytes: from the node we are in (rate fixed by the specification)
                let node = to; // encode does not change configuration; `to` has the same cfg/added
                let (k, r, sb) = (us(&node["k"]), us(&node["r"]), us(&node["sb"]));
                let added: Vec<String> = node["added"].as_array().unwrap().iter().map(|p| p.as_str().unwrap().to_string()).collect();
                let rate = node["rate"].as_str().unwrap().to_string();
                if x.steps % 3 == 0 && !x.measure_alloc {
                    bystander::<E>(x.seed ^ x.steps);
                }
                let mut li = i;
                let (outcome, allocs) = encode_then(&mut obj, |result, allocs| -> Result<(), Mismatch> {
                    let mut i = li;
                    let r: Result<(), Mismatch> = (|| {
                        check_ret(st, util::OK_JSON).map_err(mm)?;
                        let reference = enc_reference(x, &rate, k, r, sb, &added);
                        // snapshot through the result (the object is borrowed)
                        let s = result.verif_work().verif_snapshot();
                        let snap = Obj::new()
                            .str("kind", node["kind"].as_str().unwrap())
                            .str("rate", &rate)
                            .us("k", s.original_count)
                            .us("r", s.recovery_count)
                            .us("sb", s.shard_bytes)
                            .us("oc", s.original_received_count)
                            .bool("live", true)
                            .us("cap", s.data_capacity)
                            .us("len", s.data_len)
                            .us("wc", s.work_count)
                            .done();
                        trace_event(x, "enc", st, util::OK_JSON, &snap, None, &allocs, Some(true));
                        check_proj("enc", &snap, to).map_err(mm)?;
                        i += 1;
                        // consume the result's steps
                        while i < script.len() {
                            let st = script[i].step;
                            let act = st["act"].as_str().unwrap();
                            let mm = |what: String| Mismatch { step: i + 1, what };
                            x.steps += 1;
                            match act {
                                "query" => {
                                    let idx = us(&st["index"]);
                                    let (got, allocs) = alloc::measure(|| guarded!(result.recovery(idx)));
                                    let got = got.map_err(|p| mm(format!("recovery({idx}) panicked: {p}")))?.map(<[u8]>::to_vec);
                                    let want_some = st["some"].as_bool().unwrap();
                                    let extra = got.as_ref().map(|b| {
                                        format!(
                                            "\"out\":{},\"ref\":{}",
                                            digest_items(&[(idx, b.clone())]),
                                            digest_items(&[(idx, reference.get(idx).cloned().unwrap_or_default())])
                                        )
                                    });
                                    let ret = Obj::new().bool("some", got.is_some()).done();
                                    trace_event(x, "enc", st, &ret, &snap, extra, &allocs, Some(true));
                                    match (&got, want_some) {
                                        (Some(b), true) => {
                                            if b.len() != sb {
                                                return Err(mm(format!("recovery({idx}) has length {} instead of {sb}", b.len())));
                                            }
                                            if *b != reference[idx] {
                                                return Err(mm(format!("recovery({idx}) differs from a fresh {rate}-rate reference encoder on the same shards ({})", node)));
                                            }
                                        }
                                        (None, false) => {}
                                        (Some(_), false) => return Err(mm(format!("recovery({}) is Some for an index outside 0..recovery_count", st["index"]))),
                                        (None, true) => return Err(mm(format!("recovery({idx}) is None for an index below recovery_count"))),
                                    }
                                    i += 1;
                                }
                                "iter" => {
                                    let (got, allocs) = alloc::measure(|| {
                                        guarded!({
                                            let mut it = result.recovery_iter();
                                            let mut v = Vec::new();
                                            for s in it.by_ref() {
                                                v.push(s.to_vec());
                                                if v.len() > 70000 {
                                                    break;
                                                }
                                            }
                                            let again = (0..3).filter(|_| it.next().is_some()).count();
                                            (v, again)
                                        })
                                    });
                                    let (items, again) = got.map_err(|p| mm(format!("recovery_iter panicked: {p}")))?;
                                    let indexed: Vec<(usize, Vec<u8>)> = items.iter().cloned().enumerate().collect();
                                    let ret = Obj::new().us("count", items.len()).us("again", again).done();
                                    let refs: Vec<(usize, Vec<u8>)> = reference.iter().cloned().enumerate().collect();
                                    let proto = guarded!(iter_protocol_enc(result, &items)).unwrap_or_else(|p| format!("{{\"panic\":{}}}", p));
                                    let extra = format!("\"out\":{},\"ref\":{},\"proto\":{}", digest_items(&indexed), digest_items(&refs), proto);
                                    trace_event(x, "enc", st, &ret, &snap, Some(extra), &[], Some(true));
                                    let ys: Vec<usize> = (0..items.len()).collect();
                                    if proto != expected_protocol(&ys) {
                                        return Err(mm(format!("recovery_iter adaptors (nth/skip/step_by/last/count) disagree with plain iteration: {proto} instead of {}", expected_protocol(&ys))));
                                    }
                                    let _ = allocs;
                                    let want: BTreeSet<usize> = set_of(&st["yields"]);
                                    if items.len() != want.len() {
                                        return Err(mm(format!("recovery_iter yielded {} shards, the specification says {}", items.len(), want.len())));
                                    }
                                    if again != 0 {
                                        return Err(mm("recovery_iter yielded again after returning None".to_string()));
                                    }
                                    for (j, b) in items.iter().enumerate() {
                                        if b.len() != sb || *b != reference[j] {
                                            return Err(mm(format!("recovery_iter item {j} differs from a fresh {rate}-rate reference encoder ({})", node)));
                                        }
                                    }
                                    i += 1;
                                }
                                "drop" => break,
                                _ => return Err(mm(format!("script error: {act} while a result is live"))),
                            }
                        }
                        Ok(())
                    })();
                    li = i;
                    r
                });
                match outcome {
                    Err(p) => {
                        let (snap, _) = enc_snap_json(&obj, false);
                        trace_event(x, "enc", st, &p, &snap, None, &allocs, None);
                        return Err(mm(format!("encode panicked: {p}")));
                    }
                    Ok(Err(e)) => {
                        let ret = util::err_json(&e);
                        let (snap, _) = enc_snap_json(&obj, false);
                        trace_event(x, "enc", st, &ret, &snap, None, &allocs, Some(true));
                        check_ret(st, &ret).map_err(mm)?;
                        check_proj("enc", &snap, to).map_err(mm)?;
                        i += 1;
                    }
                    Ok(Ok(inner)) => {
                        inner?;
                        i = li;
                        if i < script.len() {
                            // the drop step
                            let st = script[i].step;
                            let to = script[i].to;
                            let (snap, _) = enc_snap_json(&obj, false);
                            trace_event(x, "enc", st, util::OK_JSON, &snap, None, &[], Some(true));
                            check_proj("enc", &snap, to).map_err(|what| Mismatch { step: i + 1, what })?;
                            i += 1;
                        }
                    }
                }
            }
            _ => return Err(mm(format!("script error: {act} without a live result"))),
        }
    }
    Ok(())
}

fn res_unit() {}

pub fn run_dec<E: MkEngine>(x: &mut Exec, init: &Value, script: &[StepRef]) -> Result<(), Mismatch> {
    crate::ops::poison_on(x.seed ^ x.steps.wrapping_mul(0x9E37));
    x.run_id += 1;
    let (k0, r0, sb0) = (us(&init["k"]), us(&init["r"]), us(&init["sb"]));
    let kind0 = Kind::parse(init["kind"].as_str().unwrap());
    let made = guarded!(DecObj::<E>::new(kind0, k0, r0, sb0));
    let mut obj = match made {
        Ok(Ok(o)) => o,
        Ok(Err(e)) => return Err(Mismatch { step: 0, what: format!("construction failed: {}", util::err_json(&e)) }),
        Err(p) => return Err(Mismatch { step: 0, what: format!("construction panicked: {p}") }),
    };
    {
        let (snap, _) = dec_snap_json(&obj, false);
        let newstep = serde_json::json!({"act":"new","kind":init["kind"],"k":init["k"],"r":init["r"],"sb":init["sb"]});
        trace_event(x, "dec", &newstep, util::OK_JSON, &snap, None, &[], None);
        check_proj("dec", &snap, init).map_err(|what| Mismatch { step: 0, what })?;
    }
    // the node we are in (for the round's data): starts at init
    let mut cur: &Value = init;
    let mut i = 0;
    while i < script.len() {
        let st = script[i].step;
        let to = script[i].to;
        let act = st["act"].as_str().unwrap();
        x.steps += 1;
        let mm = |what: String| Mismatch { step: i + 1, what };
        match act {
            "reset" | "add_original" | "add_recovery" => {
                let before = obj.snap().1.map(|s| (s.data_ptr, s.data_capacity));
                let data: Vec<u8> = if act == "reset" {
                    Vec::new()
                } else {
                    // the shard the round's codeword has at this index (any bytes of the requested
                    // length when the index is out of range or the length is wrong)
                    let (k, r, sb) = (us(&cur["k"]), us(&cur["r"]), us(&cur["sb"]));
                    let rate = cur["rate"].as_str().unwrap().to_string();
                    let idx = us(&st["index"]);
                    let len = us(&st["len"]);
                    let (orig, rec) = round_data(x, &rate, k, r, sb);
                    let src: Option<&Vec<u8>> = if act == "add_original" { orig.get(idx) } else { rec.get(idx) };
                    // a shard offered again under an index that was already accepted carries OTHER bytes: the call must
                    // fail and must not touch what was accepted
                    let got = &cur[if act == "add_original" { "gotO" } else { "gotR" }];
                    let dup = got.as_array().is_some_and(|a| a.iter().any(|v| v.as_i64() == Some(util::enc(idx))));
                    match src {
                        Some(s) if len == sb && !dup => s.clone(),
                        _ => util::payload(x.seed, 0xBAD, idx as u64 & 0xffff, len),
                    }
                };
                let (res, allocs) = alloc::measure(|| {
                    guarded!(match act {
                        "reset" => obj.reset(us(&st["k"]), us(&st["r"]), us(&st["sb"])),
                        "add_original" => obj.add_original(us(&st["index"]), &data),
                        _ => obj.add_recovery(us(&st["index"]), &data),
                    })
                });
                let ret = match &res {
                    Ok(r) => ret_json(r),
                    Err(p) => p.clone(),
                };
                let (snap, after) = dec_snap_json(&obj, false);
                let ptr_same = match (before, after) {
                    (Some(b), Some(a)) => Some(b.0 == a.0 && b.1 == a.1),
                    _ => None,
                };
                trace_event(x, "dec", st, &ret, &snap, None, &allocs, ptr_same);
                check_ret(st, &ret).map_err(mm)?;
                check_proj("dec", &snap, to).map_err(mm)?;
                cur = to;
                i += 1;
            }
            "rehouse" => {
                let kd = Kind::parse(st["kind"].as_str().unwrap());
                let before = obj.snap().1.map(|s| (s.data_ptr, s.data_capacity));
                let (res, allocs) = alloc::measure(|| guarded!(obj.rehouse(kd, us(&st["k"]), us(&st["r"]), us(&st["sb"]))));
                match res {
                    Ok(Ok(o)) => obj = o,
                    Ok(Err(e)) => return Err(mm(format!("rehouse the specification allows failed: {} ({})", util::err_json(&e), brief(st)))),
                    Err(p) => return Err(mm(format!("rehouse panicked: {p} ({})", brief(st)))),
                }
                let (snap, after) = dec_snap_json(&obj, false);
                let ptr_same = match (before, after) {
                    (Some(b), Some(a)) => Some(b.0 == a.0 && b.1 == a.1),
                    _ => None,
                };
                trace_event(x, "dec", st, util::OK_JSON, &snap, None, &allocs, ptr_same);
                check_proj("dec", &snap, to).map_err(mm)?;
                cur = to;
                i += 1;
            }
            "decode" => {
                let node = to;
                let (k, r, sb) = (us(&node["k"]), us(&node["r"]), us(&node["sb"]));
                let rate = node["rate"].as_str().unwrap().to_string();
                let got_o = set_of(&node["gotO"]);
                let (orig, _) = round_data(x, &rate, k, r, sb);
                if x.steps % 3 == 0 && !x.measure_alloc {
                    bystander::<E>(x.seed ^ x.steps);
                }
                let mut li = i;
                let (outcome, allocs) = decode_then(&mut obj, |result, allocs| -> Result<(), Mismatch> {
                    let mut i = li;
                    let r: Result<(), Mismatch> = (|| {
                        check_ret(st, util::OK_JSON).map_err(mm)?;
                        let s = result.verif_work().verif_snapshot();
                        let snap = Obj::new()
                            .str("kind", node["kind"].as_str().unwrap())
                            .str("rate", &rate)
                            .us("k", s.original_count)
                            .us("r", s.recovery_count)
                            .us("sb", s.shard_bytes)
                            .us("oc", s.original_received_count)
                            .us("rc", s.recovery_received_count)
                            .uss("gotO", s.received_original.iter())
                            .uss("gotR", s.received_recovery.iter())
                            .us("stray", s.received_elsewhere)
                            .bool("live", true)
                            .us("cap", s.data_capacity)
                            .us("len", s.data_len)
                            .us("wc", s.work_count)
                            .us("bits", s.bitmap_len)
                            .us("obase", s.original_base_pos)
                            .us("rbase", s.recovery_base_pos)
                .str("bptr", &format!("{:x}", s.bitmap_ptr))
                            .done();
                        trace_event(x, "dec", st, util::OK_JSON, &snap, None, &allocs, Some(true));
                        check_proj("dec", &snap, to).map_err(mm)?;
                        i += 1;
                        while i < script.len() {
                            let st = script[i].step;
                            let act = st["act"].as_str().unwrap();
                            let mm = |what: String| Mismatch { step: i + 1, what };
                            x.steps += 1;
                            match act {
                                "query" => {
                                    let idx = us(&st["index"]);
                                    let (got, allocs) = alloc::measure(|| guarded!(result.restored_original(idx)));
                                    let got = got.map(|g| g.map(<[u8]>::to_vec));
                                    let want_some = st["some"].as_bool().unwrap();
                                    let got = match got {
                                        Ok(g) => g,
                                        Err(p) => {
                                            trace_event(x, "dec", st, &p, &snap, None, &allocs, Some(true));
                                            return Err(mm(format!("restored_original({}) panicked: {p}", st["index"])));
                                        }
                                    };
                                    let extra = got.as_ref().map(|b| {
                                        format!(
                                            "\"out\":{},\"ref\":{}",
                                            digest_items(&[(idx, b.clone())]),
                                            digest_items(&[(idx, orig.get(idx).cloned().unwrap_or_default())])
                                        )
                                    });
                                    let ret = Obj::new().bool("some", got.is_some()).done();
                                    trace_event(x, "dec", st, &ret, &snap, extra, &allocs, Some(true));
                                    match (&got, want_some) {
                                        (Some(b), true) => {
                                            if b.len() != sb {
                                                return Err(mm(format!("restored_original({idx}) has length {} instead of {sb}", b.len())));
                                            }
                                            if *b != orig[idx] {
                                                return Err(mm(format!("restored_original({idx}) is not the original shard ({})", node)));
                                            }
                                        }
                                        (None, false) => {}
                                        (Some(_), false) => return Err(mm(format!("restored_original({}) is Some for an index that was given or is out of range ({})", st["index"], node))),
                                        (None, true) => return Err(mm(format!("restored_original({idx}) is None for a missing original ({})", node))),
                                    }
                                    i += 1;
                                }
                                "iter" => {
                                    let (got, _allocs) = alloc::measure(|| {
                                        guarded!({
                                            let mut it = result.restored_original_iter();
                                            let mut v = Vec::new();
                                            for (i, s) in it.by_ref() {
                                                v.push((i, s.to_vec()));
                                                if v.len() > 70000 {
                                                    break;
                                                }
                                            }
                                            let again = (0..3).filter(|_| it.next().is_some()).count();
                                            (v, again)
                                        })
                                    });
                                    let (items, again) = got.map_err(|p| mm(format!("restored_original_iter panicked: {p}")))?;
                                    let ret = Obj::new().us("count", items.len()).us("again", again).done();
                                    let refs: Vec<(usize, Vec<u8>)> = (0..k).filter(|j| !got_o.contains(j)).map(|j| (j, orig[j].clone())).collect();
                                    let proto = guarded!(iter_protocol_dec(result, &items)).unwrap_or_else(|p| format!("{{\"panic\":{}}}", p));
                                    let extra = format!("\"out\":{},\"ref\":{},\"proto\":{}", digest_items(&items), digest_items(&refs), proto);
                                    trace_event(x, "dec", st, &ret, &snap, Some(extra), &[], Some(true));
                                    let ys: Vec<usize> = set_of(&st["yields"]).into_iter().collect();
                                    if proto != expected_protocol(&ys) {
                                        return Err(mm(format!("restored_original_iter adaptors (nth/skip/step_by/last/count) disagree with the specification's view: {proto} instead of {}", expected_protocol(&ys))));
                                    }
                                    let want: Vec<usize> = set_of(&st["yields"]).into_iter().collect();
                                    let have: Vec<usize> = items.iter().map(|(i, _)| *i).collect();
                                    if have != want {
                                        return Err(mm(format!("restored_original_iter yielded indexes {have:?}, the specification says {want:?} ({})", node)));
                                    }
                                    if again != 0 {
                                        return Err(mm("restored_original_iter yielded again after returning None".to_string()));
                                    }
                                    for (j, b) in &items {
                                        if got_o.contains(j) {
                                            return Err(mm(format!("restored_original_iter reports a given original {j}")));
                                        }
                                        if b.len() != sb || *b != orig[*j] {
                                            return Err(mm(format!("restored original {j} differs from the original shard ({})", node)));
                                        }
                                    }
                                    i += 1;
                                }
                                "drop" => break,
                                _ => return Err(mm(format!("script error: {act} while a result is live"))),
                            }
                        }
                        Ok(())
                    })();
                    li = i;
                    r
                });
                match outcome {
                    Err(p) => {
                        let (snap, _) = dec_snap_json(&obj, false);
                        trace_event(x, "dec", st, &p, &snap, None, &allocs, None);
                        return Err(mm(format!("decode panicked: {p}")));
                    }
                    Ok(Err(e)) => {
                        let ret = util::err_json(&e);
                        let (snap, _) = dec_snap_json(&obj, false);
                        trace_event(x, "dec", st, &ret, &snap, None, &allocs, Some(true));
                        check_ret(st, &ret).map_err(mm)?;
                        check_proj("dec", &snap, to).map_err(mm)?;
                        i += 1;
                    }
                    Ok(Ok(inner)) => {
                        inner?;
                        i = li;
                        if i < script.len() {
                            let st = script[i].step;
                            let to = script[i].to;
                            let (snap, _) = dec_snap_json(&obj, false);
                            trace_event(x, "dec", st, util::OK_JSON, &snap, None, &[], Some(true));
                            check_proj("dec", &snap, to).map_err(|what| Mismatch { step: i + 1, what })?;
                            cur = to;
                            i += 1;
                        }
                    }
                }
            }
            _ => return Err(mm(format!("script error: {act} without a live result"))),
        }
    }
    Ok(())
}

// ----------------------------------------------------------------------
// scripts

fn script_json(g: &Graph, engine: &str, seed: u64, eids: &[usize]) -> String {
    let steps: Vec<String> = eids
        .iter()
        .map(|e| format!("{{\"step\":{},\"to\":{}}}", g.edges[*e].2, g.nodes[g.edges[*e].1]))
        .collect();
    format!(
        "{{\"role\":\"{}\",\"engine\":\"{}\",\"seed\":{},\"init\":{},\"steps\":{}}}",
        g.role,
        engine,
        seed,
        g.nodes[g.init],
        util::arr_json(&steps)
    )
}

fn run_eids<E: MkEngine>(x: &mut Exec, g: &Graph, eids: &[usize]) -> Result<(), Mismatch> {
    let script: Vec<StepRef> = eids
        .iter()
        .map(|e| StepRef { step: &g.edges[*e].2, to: &g.nodes[g.edges[*e].1] })
        .collect();
    if g.role == "enc" {
        run_enc::<E>(x, &g.nodes[g.init], &script)
    } else {
        run_dec::<E>(x, &g.nodes[g.init], &script)
    }
}

struct Report {
    scripts: u64,
    edges_covered: BTreeSet<usize>,
    violations: Vec<(String, String)>, // (what, replay path)
    classes: BTreeMap<String, u64>,
}

fn record(rep: &mut Report, outdir: &str, g: &Graph, engine: &str, seed: u64, eids: &[usize], m: Mismatch) {
    let n = rep.violations.len();
    if n >= 50 {
        return;
    }
    let path = format!("{outdir}/violation-{}-{}-{}-{}.json", g.role, engine, seed % 1000, n);
    let _ = std::fs::create_dir_all(outdir);
    std::fs::write(&path, script_json(g, engine, seed, eids)).unwrap();
    rep.violations.push((format!("step {} of {}: {}", m.step, eids.len(), m.what), path));
}

fn replay_engine<E: MkEngine>(g: &Graph, args: &Args, engine: &'static str, part: usize, parts: usize, rep: &mut Report) -> u64 {
    let seed = args.num("seed", 1) + part as u64 * 1000003;
    let outdir = args.req("outdir").to_string();
    let mode = args.get("mode").unwrap_or("edges,fail1,walks");
    let mut x = Exec {
        seed,
        engine,
        refcache: HashMap::new(),
        steps: 0,
        trace: args.get("trace").map(|p| Trace::create(&format!("{p}.{engine}.{part}"))),
        run_id: 0,
        measure_alloc: args.get("alloc").is_some(),
    };
    let pred = g.bfs_from_init();
    let tolive = g.to_live();
    let mut rng = util::rng(seed, 0x9e);
    let want_trace = x.trace.is_some();
    // traces are only written for walks (they are what Trace_Codec validates)
    let trace_saved = x.trace.take();
    if mode.contains("edges") || mode.contains("fail") {
        let acts: Option<Vec<&str>> = args.get("acts").map(|a| a.split(',').collect());
        for e in (part..g.edges.len()).step_by(parts) {
            let (u, v, _) = &g.edges[e];
            if let Some(acts) = &acts {
                if !acts.contains(&g.edges[e].2["act"].as_str().unwrap()) {
                    continue;
                }
            }
            let base = g.path_to(&pred, *u);
            let mut variants: Vec<Vec<usize>> = Vec::new();
            if mode.contains("edges") {
                variants.push(Vec::new());
            }
            let fails: Vec<usize> = g.out[*u].iter().copied().filter(|f| g.failing(*f)).collect();
            if !fails.is_empty() {
                if mode.contains("fail1") {
                    variants.push(vec![*fails.choose(&mut rng).unwrap()]);
                }
                if mode.contains("fail2") {
                    variants.push(vec![*fails.choose(&mut rng).unwrap(), *fails.choose(&mut rng).unwrap()]);
                }
            }
            for ins in variants {
                let mut eids = base.clone();
                eids.extend(ins.iter());
                eids.push(e);
                if g.nodes[*v]["res"] != "live" {
                    if let Some(cont) = &tolive[*v] {
                        eids.extend(cont.iter());
                    }
                } else if let Some(it) = g.out[*v].iter().copied().find(|f| g.edges[*f].2["act"] == "iter") {
                    if g.edges[e].2["act"] != "iter" {
                        eids.push(it);
                    }
                }
                rep.scripts += 1;
                *rep.classes.entry(format!("{}/{}", g.edges[e].2["act"].as_str().unwrap(), if g.failing(e) { "err" } else { "ok" })).or_insert(0) += 1;
                match run_eids::<E>(&mut x, g, &eids) {
                    Ok(()) => {
                        rep.edges_covered.insert(e);
                    }
                    Err(m) => record(rep, &outdir, g, engine, seed, &eids, m),
                }
            }
        }
    }
    if mode.contains("walks") {
        x.trace = trace_saved;
        let walks = (args.num("walks", 100) as usize).div_ceil(parts);
        let len = args.num("len", 40) as usize;
        for _ in 0..walks {
            let mut eids = Vec::new();
            let mut u = g.init;
            for _ in 0..len {
                let outs = &g.out[u];
                if outs.is_empty() {
                    break;
                }
                // choose the kind of call first (uniform choice over edges would almost always
                // reconfigure: there are ~100 reset/rehouse edges per state), then favour successful
                // calls: long productive histories with failures in between
                let weight = |act: &str| match act {
                    "add" => 50,
                    "add_original" | "add_recovery" => 30,
                    "encode" | "decode" => 22,
                    "reset" => 10,
                    "rehouse" => 6,
                    "query" => 40,
                    "iter" => 30,
                    "drop" => 30,
                    _ => 1,
                };
                let mut acts: Vec<&str> = outs.iter().map(|e| g.edges[*e].2["act"].as_str().unwrap()).collect();
                acts.sort_unstable();
                acts.dedup();
                let act = *acts.choose_weighted(&mut rng, |a| weight(a)).unwrap();
                let cands: Vec<usize> = outs.iter().copied().filter(|e| g.edges[*e].2["act"] == act).collect();
                let oks: Vec<usize> = cands.iter().copied().filter(|e| !g.failing(*e)).collect();
                let e = if !oks.is_empty() && rng.gen_bool(0.75) {
                    *oks.choose(&mut rng).unwrap()
                } else {
                    *cands.choose(&mut rng).unwrap()
                };
                eids.push(e);
                u = g.edges[e].1;
            }
            rep.scripts += 1;
            match run_eids::<E>(&mut x, g, &eids) {
                Ok(()) => {
                    for e in &eids {
                        rep.edges_covered.insert(*e);
                    }
                }
                Err(m) => record(rep, &outdir, g, engine, seed, &eids, m),
            }
        }
    }
    let _ = want_trace;
    if let Some(t) = x.trace.take() {
        t.finish();
    }
    x.steps
}

/// Forces every lazily initialised lookup table (they are process-wide state, not working space).
pub fn warm_tables() {
    use reed_solomon_simd::engine::tables;
    let _ = (&*tables::EXP_LOG, &*tables::LOG_WALSH, &*tables::MUL16, &*tables::MUL128, &*tables::SKEW);
}

pub fn main(args: &Args) -> i32 {
    let g = Graph::load(args.req("graph"));
    if args.get("alloc").is_some() {
        warm_tables();
    }
    let engines: Vec<&'static str> = crate::engines::usable_engines()
        .into_iter()
        .filter(|e| args.get("engines").map_or(true, |l| l.split(',').any(|y| y == *e)))
        .collect();
    let has_rs = g.nodes.iter().any(|n| n["kind"] == "rs");
    let engines: Vec<&'static str> = engines.into_iter().filter(|e| !has_rs || *e == "default").collect(); // rs always uses DefaultEngine
    let threads = args.num("threads", 12) as usize;
    let parts = (threads / engines.len().max(1)).max(1);
    let mut jobs: Vec<(&'static str, usize)> = Vec::new();
    for e in &engines {
        for p in 0..parts {
            jobs.push((*e, p));
        }
    }
    let results: Vec<(Report, u64)> = std::thread::scope(|sc| {
        let handles: Vec<_> = jobs
            .iter()
            .map(|(engine, part)| {
                let g = &g;
                let engine: &'static str = engine;
                let part = *part;
                sc.spawn(move || {
                    let mut rep = Report { scripts: 0, edges_covered: BTreeSet::new(), violations: Vec::new(), classes: BTreeMap::new() };
                    let steps = with_engine!(engine, E, { replay_engine::<E>(g, args, engine, part, parts, &mut rep) });
                    (rep, steps)
                })
            })
            .collect();
        handles.into_iter().map(|h| h.join().expect("replay thread")).collect()
    });
    let mut rep = Report { scripts: 0, edges_covered: BTreeSet::new(), violations: Vec::new(), classes: BTreeMap::new() };
    let mut steps = 0;
    for (r, s) in results {
        steps += s;
        rep.scripts += r.scripts;
        rep.edges_covered.extend(r.edges_covered);
        rep.violations.extend(r.violations);
        for (k, v) in r.classes {
            *rep.classes.entry(k).or_insert(0) += v;
        }
    }
    let viol: Vec<String> = rep
        .violations
        .iter()
        .map(|(w, p)| Obj::new().str("what", w).str("replay", p).done())
        .collect();
    let classes: Vec<String> = rep.classes.iter().map(|(k, v)| format!("\"{k}\":{v}")).collect();
    println!(
        "{{\"scripts\":{},\"steps\":{},\"edges\":{},\"edges_covered\":{},\"nodes\":{},\"violations\":{},\"classes\":{{{}}}}}",
        rep.scripts,
        steps,
        g.edges.len(),
        rep.edges_covered.len(),
        g.nodes.len(),
        util::arr_json(&viol),
        classes.join(",")
    );
    i32::from(!rep.violations.is_empty())
}

/// Re-executes a saved violation script.
pub fn main_script(args: &Args) -> i32 {
    let v: Value = serde_json::from_str(&std::fs::read_to_string(args.req("script")).expect("script")).expect("json");
    let engine: &'static str = crate::engines::ALL_ENGINES
        .iter()
        .copied()
        .find(|e| *e == v["engine"].as_str().unwrap())
        .expect("engine");
    let steps: Vec<(Value, Value)> = v["steps"].as_array().unwrap().iter().map(|s| (s["step"].clone(), s["to"].clone())).collect();
    let script: Vec<StepRef> = steps.iter().map(|(s, t)| StepRef { step: s, to: t }).collect();
    let mut x = Exec {
        seed: v["seed"].as_u64().unwrap(),
        engine,
        refcache: HashMap::new(),
        steps: 0,
        trace: None,
        run_id: 0,
        measure_alloc: false,
    };
    let role = v["role"].as_str().unwrap();
    let res = with_engine!(engine, E, {
        if role == "enc" {
            run_enc::<E>(&mut x, &v["init"], &script)
        } else {
            run_dec::<E>(&mut x, &v["init"], &script)
        }
    });
    match res {
        Ok(()) => {
            println!("{{\"replayed\":true,\"violations\":[]}}");
            0
        }
        Err(m) => {
            let w = format!("step {} of {}: {}", m.step, script.len(), m.what);
            println!("{{\"replayed\":true,\"violations\":[{}]}}", Obj::new().str("what", &w).str("replay", args.req("script")).done());
            1
        }
    }
}

// ======================================================================
// Free walks: random histories OUTSIDE the bounded graph (arbitrary configurations, indexes,
// lengths).  Nothing is expected here: every call is recorded (arguments, return value, snapshot,
// digests of exposed shards next to a fresh reference codec's) and Trace_Codec.tla alone decides.

fn pick_cfg(rng: &mut impl Rng, kind: Kind, big_shards: bool) -> (usize, usize, usize) {
    // now and then a valid configuration ON the envelope boundary (no shards are added to those)
    if !big_shards && rng.gen_range(0..100) < 4 {
        let edge = [(65535usize, 1usize), (1, 65535), (61440, 4096), (4096, 61440), (32768, 32768), (65534, 2), (2, 65534), (49152, 16384)];
        let (k, r) = *edge.choose(rng).unwrap();
        let ok = match kind {
            Kind::High => crate::dut::supports_rate("high", k, r),
            Kind::Low => crate::dut::supports_rate("low", k, r),
            _ => true,
        };
        if ok {
            return (k, r, 2);
        }
    }
    loop {
        let lim = match rng.gen_range(0..10) {
            0..=5 => 8,
            6..=8 => 40,
            _ => 300,
        };
        let k = rng.gen_range(1..=lim);
        let r = rng.gen_range(1..=lim);
        let sb = if big_shards {
            // half of them huge (allocation verdicts are only given beyond 400 000 bytes), with small shapes
            if k + r <= 12 && rng.gen_bool(0.5) {
                *[409_600usize, 409_602, 524_288, 524_350, 400_000, 1_048_578].choose(rng).unwrap()
            } else {
                *[1024usize, 2048, 4096, 4160, 8320, 1026, 3000].choose(rng).unwrap()
            }
        } else {
            // mostly up to four blocks; sometimes beyond 1 KiB with a partial last block (kernels that work in strips)
            *[2usize, 4, 6, 8, 30, 62, 64, 66, 126, 128, 130, 192, 256, 258, 2, 64, 66, 1026, 1150, 3000].choose(rng).unwrap()
        };
        let ok = match kind {
            Kind::High => crate::dut::supports_rate("high", k, r),
            Kind::Low => crate::dut::supports_rate("low", k, r),
            _ => true,
        };
        if ok {
            return (k, r, sb);
        }
    }
}

/// A configuration whose working-space need is the same as (or just below) that of (k, r, sb) but whose shard size
/// differs in its last block (partial <-> full): resets / handovers that must NOT allocate.
fn same_need_cfg(rng: &mut impl Rng, kind: Kind, k: usize, r: usize, sb: usize) -> Option<(usize, usize, usize)> {
    let blocks = sb.div_ceil(64);
    if blocks == 0 {
        return None;
    }
    let nsb = match rng.gen_range(0..4) {
        0 => blocks * 64,
        1 => blocks * 64 - 2,
        2 => (blocks - 1) * 64 + 2,
        _ => blocks * 64 - 30,
    };
    let (nk, nr) = if rng.gen_bool(0.3) { (r, k) } else { (k, r) };
    let ok = match kind {
        Kind::High => crate::dut::supports_rate("high", nk, nr),
        Kind::Low => crate::dut::supports_rate("low", nk, nr),
        _ => true,
    };
    (ok && nsb >= 2 && nk <= 400 && nr <= 400).then_some((nk, nr, nsb))
}

/// Counts at which size arithmetic is most likely to overflow: the top powers of two and their neighbours.
pub const OVERFLOW_PRONE: [usize; 8] = [1 << 63, (1 << 62) + 1, (1 << 63) - 1, usize::MAX, (1 << 63) + 1, 1 << 62, (1 << 32) + 1, usize::MAX / 3];

fn bad_cfg(rng: &mut impl Rng, k: usize, r: usize, sb: usize) -> (usize, usize, usize) {
    // both counts huge at once (sums and roundings of two huge values)
    if rng.gen_range(0..6) == 0 {
        let a = OVERFLOW_PRONE[rng.gen_range(0..OVERFLOW_PRONE.len())];
        let b = OVERFLOW_PRONE[rng.gen_range(0..5)];
        return if rng.gen_bool(0.5) { (a, b, sb) } else { (b, a, sb) };
    }
    match rng.gen_range(0..12) {
        0 => (0, r, sb),
        1 => (k, 0, sb),
        2 => (65536, r, sb),
        3 => (k, 65536, sb),
        4 => (usize::MAX, r, sb),
        5 => (k, usize::MAX - 1, sb),
        6 => (k, r, 0),
        7 => (k, r, sb + 1),
        8 => (k, r, usize::MAX),
        9 => (40000, 40000, sb),
        10 => (65535, 2, sb),
        _ => (1usize << 33, r, 1),
    }
}

fn step_json(act: &str, fields: &[(&str, i64)], strs: &[(&str, &str)]) -> Value {
    let mut m = serde_json::Map::new();
    m.insert("act".into(), Value::String(act.into()));
    for (k, v) in fields {
        m.insert((*k).into(), Value::from(*v));
    }
    for (k, v) in strs {
        m.insert((*k).into(), Value::String((*v).into()));
    }
    Value::Object(m)
}

fn snap_rate(snap: &str) -> (String, usize, usize, usize, usize) {
    let s: Value = serde_json::from_str(snap).unwrap();
    if s.get("missing").is_some() {
        return ("none".into(), 0, 0, 0, 0);
    }
    (s["rate"].as_str().unwrap().to_string(), us(&s["k"]), us(&s["r"]), us(&s["sb"]), us(&s["oc"]))
}

pub fn free_enc<E: MkEngine>(x: &mut Exec, rng: &mut impl Rng, len: usize, big: bool) {
    crate::ops::poison_on(x.seed ^ x.steps.wrapping_mul(0x51ed));
    x.run_id += 1;
    let kinds: Vec<Kind> = if x.engine == "default" { vec![Kind::High, Kind::Low, Kind::Default, Kind::Rs] } else { vec![Kind::High, Kind::Low, Kind::Default] };
    let kind0 = *kinds.choose(rng).unwrap();
    let (k0, r0, sb0) = pick_cfg(rng, kind0, big);
    let Ok(Ok(mut obj)) = guarded!(EncObj::<E>::new(kind0, k0, r0, sb0)) else {
        let st = step_json("new", &[("k", util::enc(k0)), ("r", util::enc(r0)), ("sb", util::enc(sb0))], &[("kind", kind0.name())]);
        trace_event(x, "enc", &st, &util::panic_json("construction failed"), "{\"missing\":true}", None, &[], None);
        return;
    };
    let (snap, _) = enc_snap_json(&obj, false);
    let st = step_json("new", &[("k", util::enc(k0)), ("r", util::enc(r0)), ("sb", util::enc(sb0))], &[("kind", kind0.name())]);
    trace_event(x, "enc", &st, util::OK_JSON, &snap, None, &[], None);
    let mut added: Vec<Vec<u8>> = Vec::new();
    let mut pay_no = 0u64;
    for _ in 0..len {
        x.steps += 1;
        let (snap0, _) = enc_snap_json(&obj, false);
        let (rate, k, r, sb, oc) = snap_rate(&snap0);
        if rate == "none" {
            // the object lost its inner codec: record one more call so that the trace shows it, then stop
            let st = step_json("encode", &[], &[]);
            let res = guarded!(obj.encode().map(|_| ()));
            let ret = match &res {
                Ok(r) => ret_json(r),
                Err(p) => p.clone(),
            };
            trace_event(x, "enc", &st, &ret, &snap0, None, &[], None);
            return;
        }
        // bias towards completing rounds: add until full, then mostly encode
        let full = added.len() >= k;
        let (t_add, t_run, t_reset) = if full { (8, 78, 94) } else { (80, 86, 96) };
        let roll = rng.gen_range(0..100);
        if roll < t_add && k <= 400 {
            // add
            let l = if rng.gen_bool(0.85) { sb } else { *[0usize, 1, sb + 2, sb.saturating_sub(2), sb * 2, 64].choose(rng).unwrap() };
            pay_no += 1;
            let data = util::payload(x.seed, 0xF00 + pay_no, x.run_id, l);
            let tag = format!("p{pay_no}");
            let st = step_json("add", &[("len", util::enc(l))], &[("pay", &tag)]);
            let before = obj.snap().1.map(|s| (s.data_ptr, s.data_capacity));
            let (res, allocs) = alloc::measure(|| guarded!(obj.add(&data)));
            let ret = match &res {
                Ok(r) => ret_json(r),
                Err(p) => p.clone(),
            };
            if matches!(res, Ok(Ok(()))) {
                added.push(data);
            }
            let (snap, after) = enc_snap_json(&obj, false);
            let ptr_same = match (before, after) {
                (Some(b), Some(a)) => Some(b == (a.0, a.1)),
                _ => None,
            };
            trace_event(x, "enc", &st, &ret, &snap, None, &allocs, ptr_same);
            let _ = oc;
        } else if roll < t_run {
            // encode, then use the result
            let st = step_json("encode", &[], &[]);
            let reference: Vec<Vec<u8>> = if added.len() == k && crate::dut::supports_rate(&rate, k, r) { crate::dut::ref_encode(&rate, k, r, &added) } else { Vec::new() };
            let kindname = obj.kind().name();
            let mut events: Vec<(Value, String, Option<String>, Vec<usize>)> = Vec::new();
            let mut live_snap = String::new();
            let (outcome, allocs) = encode_then(&mut obj, |result, _| {
                let s = result.verif_work().verif_snapshot();
                live_snap = Obj::new()
                    .str("kind", kindname)
                    .str("rate", &rate)
                    .us("k", s.original_count)
                    .us("r", s.recovery_count)
                    .us("sb", s.shard_bytes)
                    .us("oc", s.original_received_count)
                    .bool("live", true)
                    .us("cap", s.data_capacity)
                    .us("len", s.data_len)
                    .us("wc", s.work_count)
                    .done();
                let nq = rng.gen_range(0..4);
                for _ in 0..nq {
                    let idx = *[rng.gen_range(0..r + 2), r - 1, r, 0, 65535, 65536, usize::MAX, usize::MAX - 1].choose(rng).unwrap();
                    let (got, al) = alloc::measure(|| guarded!(result.recovery(idx)));
                    match got {
                        Ok(g) => {
                            let g = g.map(<[u8]>::to_vec);
                            let extra = g.as_ref().map(|b| {
                                format!("\"out\":{},\"ref\":{}", digest_items(&[(idx, b.clone())]), digest_items(&[(idx, reference.get(idx).cloned().unwrap_or_default())]))
                            });
                            events.push((step_json("query", &[("index", util::enc(idx))], &[]), Obj::new().bool("some", g.is_some()).done(), extra, al));
                        }
                        Err(p) => events.push((step_json("query", &[("index", util::enc(idx))], &[]), p, None, al)),
                    }
                }
                if rng.gen_bool(0.7) {
                    let got = guarded!({
                        let mut it = result.recovery_iter();
                        let mut v = Vec::new();
                        for s in it.by_ref() {
                            v.push(s.to_vec());
                            if v.len() > 70000 {
                                break;
                            }
                        }
                        let again = (0..3).filter(|_| it.next().is_some()).count();
                        (v, again)
                    });
                    match got {
                        Ok((items, again)) => {
                            let indexed: Vec<(usize, Vec<u8>)> = items.iter().cloned().enumerate().collect();
                            let refs: Vec<(usize, Vec<u8>)> = reference.iter().cloned().enumerate().collect();
                            let proto = guarded!(iter_protocol_enc(result, &items)).unwrap_or_else(|p| format!("{{\"panic\":{}}}", p));
                            events.push((
                                step_json("iter", &[], &[]),
                                Obj::new().us("count", items.len()).us("again", again).done(),
                                Some(format!("\"out\":{},\"ref\":{},\"proto\":{}", digest_items(&indexed), digest_items(&refs), proto)),
                                Vec::new(),
                            ));
                        }
                        Err(p) => events.push((step_json("iter", &[], &[]), p, None, Vec::new())),
                    }
                }
            });
            match outcome {
                Err(p) => {
                    let (snap, _) = enc_snap_json(&obj, false);
                    trace_event(x, "enc", &st, &p, &snap, None, &allocs, None);
                    return;
                }
                Ok(Err(e)) => {
                    let (snap, _) = enc_snap_json(&obj, false);
                    trace_event(x, "enc", &st, &util::err_json(&e), &snap, None, &allocs, Some(true));
                }
                Ok(Ok(())) => {
                    trace_event(x, "enc", &st, util::OK_JSON, &live_snap, None, &allocs, Some(true));
                    for (st, ret, extra, al) in events {
                        trace_event(x, "enc", &st, &ret, &live_snap, extra, &al, Some(true));
                    }
                    let (snap, _) = enc_snap_json(&obj, false);
                    trace_event(x, "enc", &step_json("drop", &[], &[]), util::OK_JSON, &snap, None, &[], Some(true));
                    added.clear();
                }
            }
        } else if roll < t_reset || obj.kind() == Kind::Rs {
            // reset
            let (mut nk, mut nr, mut nsb) = pick_cfg(rng, obj.kind(), big);
            if big && rng.gen_bool(0.4) {
                if let Some(c) = same_need_cfg(rng, obj.kind(), k, r, sb) {
                    (nk, nr, nsb) = c;
                }
            }
            if rng.gen_bool(0.25) {
                (nk, nr, nsb) = bad_cfg(rng, nk, nr, nsb);
            }
            let st = step_json("reset", &[("k", util::enc(nk)), ("r", util::enc(nr)), ("sb", util::enc(nsb))], &[]);
            let before = obj.snap().1.map(|s| (s.data_ptr, s.data_capacity));
            let (res, allocs) = alloc::measure(|| guarded!(obj.reset(nk, nr, nsb)));
            let ret = match &res {
                Ok(r) => ret_json(r),
                Err(p) => p.clone(),
            };
            if matches!(res, Ok(Ok(()))) {
                added.clear();
            }
            let (snap, after) = enc_snap_json(&obj, false);
            let ptr_same = match (before, after) {
                (Some(b), Some(a)) => Some(b == (a.0, a.1)),
                _ => None,
            };
            trace_event(x, "enc", &st, &ret, &snap, None, &allocs, ptr_same);
        } else {
            // rehouse into another kind (valid configuration: a failing rehouse consumes the object)
            let kd = *[Kind::High, Kind::Low, Kind::Default].choose(rng).unwrap();
            let (mut nk, mut nr, mut nsb) = pick_cfg(rng, kd, big);
            if big && rng.gen_bool(0.4) {
                if let Some(c) = same_need_cfg(rng, kd, k, r, sb) {
                    (nk, nr, nsb) = c;
                }
            } else if rng.gen_bool(0.3) && k <= 400 && r <= 400 {
                // the very same configuration in a codec of another kind (the two rates lay the same counts out differently)
                let ok = match kd {
                    Kind::High => crate::dut::supports_rate("high", k, r),
                    Kind::Low => crate::dut::supports_rate("low", k, r),
                    _ => true,
                };
                if ok {
                    (nk, nr, nsb) = (k, r, sb);
                }
            }
            let st = step_json("rehouse", &[("k", util::enc(nk)), ("r", util::enc(nr)), ("sb", util::enc(nsb))], &[("kind", kd.name())]);
            let before = obj.snap().1.map(|s| (s.data_ptr, s.data_capacity));
            let (res, allocs) = alloc::measure(|| guarded!(obj.rehouse(kd, nk, nr, nsb)));
            match res {
                Ok(Ok(o)) => obj = o,
                Ok(Err(e)) => {
                    trace_event(x, "enc", &st, &util::err_json(&e), "{\"missing\":true}", None, &allocs, None);
                    return;
                }
                Err(p) => {
                    trace_event(x, "enc", &st, &p, "{\"missing\":true}", None, &allocs, None);
                    return;
                }
            }
            added.clear();
            let (snap, after) = enc_snap_json(&obj, false);
            let ptr_same = match (before, after) {
                (Some(b), Some(a)) => Some(b == (a.0, a.1)),
                _ => None,
            };
            trace_event(x, "enc", &st, util::OK_JSON, &snap, None, &allocs, ptr_same);
        }
    }
}

pub fn free_dec<E: MkEngine>(x: &mut Exec, rng: &mut impl Rng, len: usize, big: bool) {
    crate::ops::poison_on(x.seed ^ x.steps.wrapping_mul(0x51ed));
    x.run_id += 1;
    let kinds: Vec<Kind> = if x.engine == "default" { vec![Kind::High, Kind::Low, Kind::Default, Kind::Rs] } else { vec![Kind::High, Kind::Low, Kind::Default] };
    let kind0 = *kinds.choose(rng).unwrap();
    let (k0, r0, sb0) = pick_cfg(rng, kind0, big);
    let Ok(Ok(mut obj)) = guarded!(DecObj::<E>::new(kind0, k0, r0, sb0)) else {
        let st = step_json("new", &[("k", util::enc(k0)), ("r", util::enc(r0)), ("sb", util::enc(sb0))], &[("kind", kind0.name())]);
        trace_event(x, "dec", &st, &util::panic_json("construction failed"), "{\"missing\":true}", None, &[], None);
        return;
    };
    let (snap, _) = dec_snap_json(&obj, false);
    let st = step_json("new", &[("k", util::enc(k0)), ("r", util::enc(r0)), ("sb", util::enc(sb0))], &[("kind", kind0.name())]);
    trace_event(x, "dec", &st, util::OK_JSON, &snap, None, &[], None);
    // the round's codeword: made when first needed, forgotten at reset / rehouse / drop
    let mut round: Option<(Vec<Vec<u8>>, Vec<Vec<u8>>)> = None;
    let mut round_no = 0u64;
    let mut given_o: BTreeSet<usize> = BTreeSet::new();
    let mut given_r: BTreeSet<usize> = BTreeSet::new();
    // pattern memory: after a reset / drop the previous round's arrival list is often replayed (same indexes,
    // new data), so that anything cached per pattern or per shape across rounds is exercised
    let mut this_round: Vec<(bool, usize)> = Vec::new();
    let mut last_decoded: Vec<(bool, usize)> = Vec::new();
    let mut replay_queue: Vec<(bool, usize)> = Vec::new();
    for _ in 0..len {
        x.steps += 1;
        let (snap0, _) = dec_snap_json(&obj, false);
        let (rate, k, r, sb, _) = snap_rate(&snap0);
        if rate == "none" {
            let st = step_json("decode", &[], &[]);
            let res = guarded!(obj.decode().map(|_| ()));
            let ret = match &res {
                Ok(r) => ret_json(r),
                Err(p) => p.clone(),
            };
            trace_event(x, "dec", &st, &ret, &snap0, None, &[], None);
            return;
        }
        if round.is_none() && k <= 400 && r <= 400 && crate::dut::supports_rate(&rate, k, r) {
            round_no += 1;
            let orig: Vec<Vec<u8>> = (0..k).map(|i| util::payload(x.seed, 0xD00 + round_no, x.run_id * 1000 + i as u64, sb)).collect();
            let rec = crate::dut::ref_encode(&rate, k, r, &orig);
            round = Some((orig, rec));
        }
        let enough = given_o.len() + given_r.len() >= k;
        let (t_add, t_run, t_reset) = if enough { (25, 80, 95) } else { (82, 87, 96) };
        let roll = rng.gen_range(0..100);
        if roll < t_add && round.is_some() {
            let (orig, rec) = round.as_ref().unwrap();
            let queued = replay_queue.pop();
            let is_rec = queued.map_or_else(|| rng.gen_bool(0.5), |q| q.0);
            let cnt = if is_rec { r } else { k };
            let given = if is_rec { &given_r } else { &given_o };
            let fresh: Vec<usize> = (0..cnt).filter(|i| !given.contains(i)).collect();
            let idx = match rng.gen_range(0..20) {
                _ if queued.is_some() => queued.unwrap().1,
                0 => cnt,
                1 => *[65535usize, 65536, usize::MAX, usize::MAX - 1, cnt + 1].choose(rng).unwrap(),
                2 if !given.is_empty() => *given.iter().next().unwrap(),
                _ if !fresh.is_empty() => *fresh.choose(rng).unwrap(),
                _ => rng.gen_range(0..cnt),
            };
            let l = if rng.gen_bool(0.88) { sb } else { *[0usize, 1, sb + 2, sb.saturating_sub(2), 64].choose(rng).unwrap() };
            let src = if is_rec { rec.get(idx) } else { orig.get(idx) };
            let data = match src {
                Some(s) if l == sb && !given.contains(&idx) => s.clone(),
                _ => util::payload(x.seed, 0xBAD, idx as u64 & 0xffff, l),
            };
            let act = if is_rec { "add_recovery" } else { "add_original" };
            let st = step_json(act, &[("index", util::enc(idx)), ("len", util::enc(l))], &[]);
            let before = obj.snap().1.map(|s| (s.data_ptr, s.data_capacity));
            let (res, allocs) = alloc::measure(|| guarded!(if is_rec { obj.add_recovery(idx, &data) } else { obj.add_original(idx, &data) }));
            let ret = match &res {
                Ok(r) => ret_json(r),
                Err(p) => p.clone(),
            };
            if matches!(res, Ok(Ok(()))) {
                if is_rec {
                    given_r.insert(idx);
                } else {
                    given_o.insert(idx);
                }
                this_round.push((is_rec, idx));
            }
            let (snap, after) = dec_snap_json(&obj, false);
            let ptr_same = match (before, after) {
                (Some(b), Some(a)) => Some(b == (a.0, a.1)),
                _ => None,
            };
            trace_event(x, "dec", &st, &ret, &snap, None, &allocs, ptr_same);
        } else if roll < t_run {
            let st = step_json("decode", &[], &[]);
            let kindname = obj.kind().name();
            let orig: Vec<Vec<u8>> = round.as_ref().map(|x| x.0.clone()).unwrap_or_default();
            let mut events: Vec<(Value, String, Option<String>, Vec<usize>)> = Vec::new();
            let mut live_snap = String::new();
            let go = given_o.clone();
            let (outcome, allocs) = decode_then(&mut obj, |result, _| {
                let s = result.verif_work().verif_snapshot();
                live_snap = Obj::new()
                    .str("kind", kindname)
                    .str("rate", &rate)
                    .us("k", s.original_count)
                    .us("r", s.recovery_count)
                    .us("sb", s.shard_bytes)
                    .us("oc", s.original_received_count)
                    .us("rc", s.recovery_received_count)
                    .uss("gotO", s.received_original.iter())
                    .uss("gotR", s.received_recovery.iter())
                    .us("stray", s.received_elsewhere)
                    .bool("live", true)
                    .us("cap", s.data_capacity)
                    .us("len", s.data_len)
                    .us("wc", s.work_count)
                    .us("bits", s.bitmap_len)
                    .us("obase", s.original_base_pos)
                    .us("rbase", s.recovery_base_pos)
                .str("bptr", &format!("{:x}", s.bitmap_ptr))
                    .done();
                let nq = rng.gen_range(0..4);
                for _ in 0..nq {
                    let idx = *[rng.gen_range(0..k + 2), k - 1, k, 0, 65535, 65536, usize::MAX, usize::MAX - 1].choose(rng).unwrap();
                    let (got, al) = alloc::measure(|| guarded!(result.restored_original(idx)));
                    match got {
                        Ok(g) => {
                            let g = g.map(<[u8]>::to_vec);
                            let extra = g.as_ref().map(|b| {
                                format!("\"out\":{},\"ref\":{}", digest_items(&[(idx, b.clone())]), digest_items(&[(idx, orig.get(idx).cloned().unwrap_or_default())]))
                            });
                            events.push((step_json("query", &[("index", util::enc(idx))], &[]), Obj::new().bool("some", g.is_some()).done(), extra, al));
                        }
                        Err(p) => events.push((step_json("query", &[("index", util::enc(idx))], &[]), p, None, al)),
                    }
                }
                if rng.gen_bool(0.7) {
                    let got = guarded!({
                        let mut it = result.restored_original_iter();
                        let mut v = Vec::new();
                        for (i, s) in it.by_ref() {
                            v.push((i, s.to_vec()));
                            if v.len() > 70000 {
                                break;
                            }
                        }
                        let again = (0..3).filter(|_| it.next().is_some()).count();
                        (v, again)
                    });
                    match got {
                        Ok((items, again)) => {
                            let refs: Vec<(usize, Vec<u8>)> = (0..k).filter(|j| !go.contains(j)).map(|j| (j, orig.get(j).cloned().unwrap_or_default())).collect();
                            let proto = guarded!(iter_protocol_dec(result, &items)).unwrap_or_else(|p| format!("{{\"panic\":{}}}", p));
                            events.push((
                                step_json("iter", &[], &[]),
                                Obj::new().us("count", items.len()).us("again", again).done(),
                                Some(format!("\"out\":{},\"ref\":{},\"proto\":{}", digest_items(&items), digest_items(&refs), proto)),
                                Vec::new(),
                            ));
                        }
                        Err(p) => events.push((step_json("iter", &[], &[]), p, None, Vec::new())),
                    }
                }
            });
            match outcome {
                Err(p) => {
                    let (snap, _) = dec_snap_json(&obj, false);
                    trace_event(x, "dec", &st, &p, &snap, None, &allocs, None);
                    return;
                }
                Ok(Err(e)) => {
                    let (snap, _) = dec_snap_json(&obj, false);
                    trace_event(x, "dec", &st, &util::err_json(&e), &snap, None, &allocs, Some(true));
                }
                Ok(Ok(())) => {
                    trace_event(x, "dec", &st, util::OK_JSON, &live_snap, None, &allocs, Some(true));
                    for (st, ret, extra, al) in events {
                        trace_event(x, "dec", &st, &ret, &live_snap, extra, &al, Some(true));
                    }
                    let (snap, _) = dec_snap_json(&obj, false);
                    trace_event(x, "dec", &step_json("drop", &[], &[]), util::OK_JSON, &snap, None, &[], Some(true));
                    round = None;
                    given_o.clear();
                    given_r.clear();
                    // the next round often offers the same shards again - or, when the counts allow it, the MIRRORED set
                    // (original i <-> recovery i): after a move to the other rate those land on the same work positions
                    replay_queue = match rng.gen_range(0..6) {
                        0..=2 => this_round.iter().rev().copied().collect(),
                        3 if k == r => this_round.iter().rev().map(|a| (!a.0, a.1)).collect(),
                        _ => Vec::new(),
                    };
                    last_decoded = std::mem::take(&mut this_round);
                }
            }
        } else if roll < t_reset || obj.kind() == Kind::Rs {
            let (mut nk, mut nr, mut nsb) = pick_cfg(rng, obj.kind(), big);
            // often a NEIGHBOUR of the current shape (same chunk size, one more/less shard, other shard size)
            if rng.gen_bool(0.4) && k < 400 && r < 400 {
                let (ck, cr) = match rng.gen_range(0..5) {
                    0 => (k + 1, r),
                    1 => (k.saturating_sub(1).max(1), r),
                    2 => (k, r + 1),
                    3 => (k, r.saturating_sub(1).max(1)),
                    _ => (k, r),
                };
                let ok = match obj.kind() {
                    Kind::High => crate::dut::supports_rate("high", ck, cr),
                    Kind::Low => crate::dut::supports_rate("low", ck, cr),
                    _ => true,
                };
                if ok {
                    nk = ck;
                    nr = cr;
                    if rng.gen_bool(0.5) {
                        nsb = sb;
                    }
                }
            }
            if big && rng.gen_bool(0.4) {
                if let Some(c) = same_need_cfg(rng, obj.kind(), k, r, sb) {
                    (nk, nr, nsb) = c;
                }
            }
            if rng.gen_bool(0.25) {
                (nk, nr, nsb) = bad_cfg(rng, nk, nr, nsb);
            }
            let st = step_json("reset", &[("k", util::enc(nk)), ("r", util::enc(nr)), ("sb", util::enc(nsb))], &[]);
            let before = obj.snap().1.map(|s| (s.data_ptr, s.data_capacity));
            let (res, allocs) = alloc::measure(|| guarded!(obj.reset(nk, nr, nsb)));
            let ret = match &res {
                Ok(r) => ret_json(r),
                Err(p) => p.clone(),
            };
            if matches!(res, Ok(Ok(()))) {
                round = None;
                given_o.clear();
                given_r.clear();
                // replay the arrivals of the interrupted round, or of the last decoded one, on the new shape
                let src = if this_round.is_empty() { &last_decoded } else { &this_round };
                if !src.is_empty() && rng.gen_bool(0.7) {
                    replay_queue = src.iter().rev().copied().collect();
                }
                this_round.clear();
            }
            let (snap, after) = dec_snap_json(&obj, false);
            let ptr_same = match (before, after) {
                (Some(b), Some(a)) => Some(b == (a.0, a.1)),
                _ => None,
            };
            trace_event(x, "dec", &st, &ret, &snap, None, &allocs, ptr_same);
        } else {
            let kd = *[Kind::High, Kind::Low, Kind::Default].choose(rng).unwrap();
            let (mut nk, mut nr, mut nsb) = pick_cfg(rng, kd, big);
            if big && rng.gen_bool(0.4) {
                if let Some(c) = same_need_cfg(rng, kd, k, r, sb) {
                    (nk, nr, nsb) = c;
                }
            } else if rng.gen_bool(0.3) && k <= 400 && r <= 400 {
                // the very same configuration in a codec of another kind (the two rates lay the same counts out differently)
                let ok = match kd {
                    Kind::High => crate::dut::supports_rate("high", k, r),
                    Kind::Low => crate::dut::supports_rate("low", k, r),
                    _ => true,
                };
                if ok {
                    (nk, nr, nsb) = (k, r, sb);
                }
            }
            let st = step_json("rehouse", &[("k", util::enc(nk)), ("r", util::enc(nr)), ("sb", util::enc(nsb))], &[("kind", kd.name())]);
            let before = obj.snap().1.map(|s| (s.data_ptr, s.data_capacity));
            let (res, allocs) = alloc::measure(|| guarded!(obj.rehouse(kd, nk, nr, nsb)));
            match res {
                Ok(Ok(o)) => obj = o,
                Ok(Err(e)) => {
                    trace_event(x, "dec", &st, &util::err_json(&e), "{\"missing\":true}", None, &allocs, None);
                    return;
                }
                Err(p) => {
                    trace_event(x, "dec", &st, &p, "{\"missing\":true}", None, &allocs, None);
                    return;
                }
            }
            round = None;
            given_o.clear();
            given_r.clear();
            let (snap, after) = dec_snap_json(&obj, false);
            let ptr_same = match (before, after) {
                (Some(b), Some(a)) => Some(b == (a.0, a.1)),
                _ => None,
            };
            trace_event(x, "dec", &st, util::OK_JSON, &snap, None, &allocs, ptr_same);
        }
    }
}

/// rsverif freewalk --role enc|dec --trace <prefix> --seed S --runs N --len L [--engines a,b] [--alloc 1] [--bigshards 1]
pub fn main_free(args: &Args) -> i32 {
    let role = args.req("role").to_string();
    let engines: Vec<&'static str> = crate::engines::usable_engines()
        .into_iter()
        .filter(|e| args.get("engines").map_or(true, |l| l.split(',').any(|y| y == *e)))
        .collect();
    if args.get("alloc").is_some() {
        warm_tables();
    }
    let runs = args.num("runs", 100) as usize;
    let len = args.num("len", 60) as usize;
    let seed = args.num("seed", 1);
    let big = args.get("bigshards").is_some();
    let prefix = args.req("trace").to_string();
    let per = runs.div_ceil(engines.len());
    let counts: Vec<(u64, usize)> = std::thread::scope(|sc| {
        let hs: Vec<_> = engines
            .iter()
            .map(|engine| {
                let engine: &'static str = engine;
                let role = role.clone();
                let prefix = prefix.clone();
                sc.spawn(move || {
                    let mut x = Exec {
                        seed,
                        engine,
                        refcache: HashMap::new(),
                        steps: 0,
                        trace: Some(Trace::create(&format!("{prefix}.{engine}.0"))),
                        run_id: 0,
                        measure_alloc: args.get("alloc").is_some(),
                    };
                    let mut rng = util::rng(seed, 0xF4EE ^ util::fnv(engine.as_bytes()));
                    for _ in 0..per {
                        with_engine!(engine, E, {
                            if role == "enc" {
                                free_enc::<E>(&mut x, &mut rng, len, big)
                            } else {
                                free_dec::<E>(&mut x, &mut rng, len, big)
                            }
                        });
                    }
                    let lines = x.trace.take().unwrap().finish();
                    (x.steps, lines)
                })
            })
            .collect();
        hs.into_iter().map(|h| h.join().unwrap()).collect()
    });
    println!(
        "{{\"runs\":{},\"steps\":{},\"events\":{}}}",
        per * engines.len(),
        counts.iter().map(|c| c.0).sum::<u64>(),
        counts.iter().map(|c| c.1).sum::<usize>()
    );
    0
}
