//! Driver "dispatch": DefaultEngine under every feature mask (hook H3), recorded for Trace_Dispatch.tla.

use crate::util::{self, Obj, Trace};
use crate::Args;
use rand::RngCore;
use reed_solomon_simd::engine::{DefaultEngine, Engine, ShardsRefMut, GF_ORDER};
use reed_solomon_simd::rate::{DefaultRateDecoder, DefaultRateEncoder, RateDecoder, RateEncoder};
use reed_solomon_simd::verif;
use reed_solomon_simd::{ReedSolomonDecoder, ReedSolomonEncoder};

fn counters_json(c: [[u64; 4]; 3]) -> String {
    let mut o = Obj::new();
    for (i, isa) in verif::ISAS.iter().enumerate() {
        let mut e = Obj::new();
        for (j, en) in verif::ENTRIES.iter().enumerate() {
            e = e.int(en, c[i][j] as i64);
        }
        o = o.raw(isa, &e.done());
    }
    o.done()
}

fn call_event(t: &mut Trace, op: &str, needs: &[&str], f: impl FnOnce() -> Vec<u8>) {
    let _ = verif::take_isa_counts();
    let res = std::panic::catch_unwind(std::panic::AssertUnwindSafe(f));
    let c = verif::take_isa_counts();
    let needs_json: Vec<String> = needs.iter().map(|n| format!("\"{n}\"")).collect();
    let mut o = Obj::new().str("ev", "call").str("op", op).raw("needs", &util::arr_json(&needs_json)).raw("isas", &counters_json(c));
    o = match res {
        Ok(bytes) => o.str("dig", &util::fnv_hex(&bytes)),
        Err(p) => o.str("dig", "-").raw("fail", &util::panic_json(&util::panic_message(&*p))),
    };
    t.line(&o.done());
}

fn data(seed: u64, tag: u64, n: usize) -> Vec<[u8; 64]> {
    let mut rng = util::rng(seed, tag);
    let mut v = vec![[0u8; 64]; n];
    for b in v.iter_mut() {
        rng.fill_bytes(&mut b[..]);
    }
    v
}

fn flat(v: &[[u8; 64]]) -> Vec<u8> {
    v.as_flattened().to_vec()
}

pub fn main(args: &Args) -> i32 {
    let seed = args.num("seed", 1);
    let mut t = Trace::create(args.req("out"));
    let real_avx2 = std::is_x86_feature_detected!("avx2");
    let real_ssse3 = std::is_x86_feature_detected!("ssse3");
    let rounds = if args.thorough() { 6 } else { 2 };
    for round in 0..rounds {
        for mask in [3u32, 0, 1, 2, 3, 2, 1, 0] {
            verif::set_feature_mask(mask);
            let mut rep: Vec<&str> = Vec::new();
            if real_avx2 && mask & verif::FEATURE_AVX2 != 0 {
                rep.push("\"avx2\"");
            }
            if real_ssse3 && mask & verif::FEATURE_SSSE3 != 0 {
                rep.push("\"ssse3\"");
            }
            t.line(&Obj::new().str("ev", "mask").int("mask", i64::from(mask)).raw("reported", &format!("[{}]", rep.join(","))).done());
            let _ = verif::take_isa_counts();
            // both public ways of constructing the engine: new() and the Default impl (generic `E: Default` code)
            let s = seed + round as u64 * 977;
            for (via, sizes) in [("", &[(16usize, 16usize), (64, 37), (8, 3), (32, 5), (128, 100), (2, 1)][..]), ("dflt-", &[(16, 16), (32, 5)][..])] {
            let eng = if via.is_empty() { DefaultEngine::new() } else { DefaultEngine::default() };
            t.line(&Obj::new().str("ev", "construct").raw("isas", &counters_json(verif::take_isa_counts())).done());
            // primitives of the constructed engine (operation ids carry the round: data differs per round, not per mask)
            for (size, trunc) in sizes.iter().copied() {
                call_event(&mut t, &format!("{via}fft{size}/{round}"), &["fft"], || {
                    let mut d = data(s, size as u64, size * 2);
                    let mut sh = ShardsRefMut::new(size, 2, &mut d);
                    eng.fft(&mut sh, 0, size, trunc, size);
                    flat(&d[..trunc * 2])
                });
                call_event(&mut t, &format!("{via}ifft{size}/{round}"), &["ifft"], || {
                    let mut d = data(s, 100 + size as u64, size * 2);
                    for b in d[trunc * 2..].iter_mut() {
                        *b = [0u8; 64];
                    }
                    let mut sh = ShardsRefMut::new(size, 2, &mut d);
                    eng.ifft(&mut sh, 0, size, trunc, 0);
                    flat(&d)
                });
                call_event(&mut t, &format!("{via}ifftd{size}/{round}"), &["ifft"], || {
                    // non-zero skew offset: the multiplying branches of the last layers
                    let mut d = data(s, 200 + size as u64, size * 2);
                    for b in d[trunc * 2..].iter_mut() {
                        *b = [0u8; 64];
                    }
                    let mut sh = ShardsRefMut::new(size, 2, &mut d);
                    eng.ifft(&mut sh, 0, size, trunc, size);
                    flat(&d)
                });
            }
            call_event(&mut t, &format!("{via}mul/{round}"), &["mul"], || {
                let mut d = data(s, 7, 5);
                eng.mul(&mut d, 12345);
                eng.mul(&mut d[1..3], 65535);
                flat(&d)
            });
            }
            call_event(&mut t, &format!("evalpoly/{round}"), &["eval_poly"], || {
                let mut er = Box::new([0u16; GF_ORDER]);
                for m in [1usize, 5, 77, 300, 4000] {
                    er[m] = 1;
                }
                DefaultEngine::eval_poly(&mut er, 4001);
                er.iter().flat_map(|x| x.to_le_bytes()).collect()
            });
            // whole rounds, both rates, three API layers
            for (k, r, sb) in [(5usize, 3usize, 64usize), (3, 5, 66), (9, 8, 64), (47, 17, 66), (20, 70, 2), (130, 30, 130)] {
                let orig: Vec<Vec<u8>> = (0..k).map(|i| util::payload(s, 0xD15, i as u64, sb)).collect();
                let mut rec_keep: Vec<Vec<u8>> = Vec::new();
                call_event(&mut t, &format!("enc_default_{k}_{r}/{round}"), &["fft", "ifft"], || {
                    let mut e = DefaultRateEncoder::new(k, r, sb, DefaultEngine::new(), None).unwrap();
                    for o in &orig {
                        e.add_original_shard(o).unwrap();
                    }
                    let res = e.encode().unwrap();
                    let v: Vec<Vec<u8>> = res.recovery_iter().map(<[u8]>::to_vec).collect();
                    rec_keep = v.clone();
                    v.concat()
                });
                let rec = rec_keep.clone();
                if rec.len() != r {
                    continue;
                }
                call_event(&mut t, &format!("dec_default_{k}_{r}/{round}"), &["fft", "ifft", "mul", "eval_poly"], || {
                    let mut d = DefaultRateDecoder::new(k, r, sb, DefaultEngine::new(), None).unwrap();
                    d.add_original_shard(k - 1, &orig[k - 1]).unwrap();
                    for j in 0..r.min(k - 1) {
                        d.add_recovery_shard(j, &rec[j]).unwrap();
                    }
                    for i in 0..(k - 1).saturating_sub(r) {
                        d.add_original_shard(i, &orig[i]).unwrap();
                    }
                    let res = d.decode().unwrap();
                    let v: Vec<Vec<u8>> = res.restored_original_iter().map(|(_, s)| s.to_vec()).collect();
                    v.concat()
                });
                call_event(&mut t, &format!("enc_dflt_{k}_{r}/{round}"), &["fft", "ifft"], || {
                    let mut e = DefaultRateEncoder::new(k, r, sb, DefaultEngine::default(), None).unwrap();
                    for o in &orig {
                        e.add_original_shard(o).unwrap();
                    }
                    let res = e.encode().unwrap();
                    res.recovery_iter().map(<[u8]>::to_vec).collect::<Vec<_>>().concat()
                });
                call_event(&mut t, &format!("rs_enc_{k}_{r}/{round}"), &["fft", "ifft"], || {
                    let mut e = ReedSolomonEncoder::new(k, r, sb).unwrap();
                    for o in &orig {
                        e.add_original_shard(o).unwrap();
                    }
                    let res = e.encode().unwrap();
                    res.recovery_iter().map(<[u8]>::to_vec).collect::<Vec<_>>().concat()
                });
                call_event(&mut t, &format!("rs_dec_{k}_{r}/{round}"), &["fft", "ifft", "mul", "eval_poly"], || {
                    let mut d = ReedSolomonDecoder::new(k, r, sb).unwrap();
                    for j in 0..r.min(k) {
                        d.add_recovery_shard(j, &rec[j]).unwrap();
                    }
                    for i in 0..k.saturating_sub(r) {
                        d.add_original_shard(k - 1 - i, &orig[k - 1 - i]).unwrap();
                    }
                    let res = d.decode().unwrap();
                    res.restored_original_iter().map(|(_, s)| s.to_vec()).collect::<Vec<_>>().concat()
                });
                call_event(&mut t, &format!("oneshot_enc_{k}_{r}/{round}"), &["fft", "ifft"], || reed_solomon_simd::encode(k, r, &orig).unwrap().concat());
                call_event(&mut t, &format!("oneshot_dec_{k}_{r}/{round}"), &["fft", "ifft", "mul", "eval_poly"], || {
                    // original k-1 is given, recovery 0..min(r, k-1), and leading originals if that is not enough
                    let nrec = r.min(k - 1);
                    let mut o: Vec<(usize, &Vec<u8>)> = vec![(k - 1, &orig[k - 1])];
                    for i in 0..(k - 1 - nrec) {
                        o.push((i, &orig[i]));
                    }
                    let rr: Vec<(usize, &Vec<u8>)> = (0..nrec).map(|j| (j, &rec[j])).collect();
                    let m = reed_solomon_simd::decode(k, r, o, rr).unwrap();
                    let mut v: Vec<(usize, Vec<u8>)> = m.into_iter().collect();
                    v.sort();
                    v.into_iter().flat_map(|x| x.1).collect()
                });
            }
        }
    }
    verif::set_feature_mask(u32::MAX);
    let lines = t.finish();
    println!("{{\"events\":{},\"real\":[{},{}]}}", lines, real_avx2, real_ssse3);
    0
}
