#![allow(dead_code)]
//! rsverif: conformance harness binding the TLA+ specifications in /verif/spec to reed-solomon-simd.
//!
//! Subcommands write ndjson traces (validated by TLC against Trace_*.tla) or replay
//! TLC-generated graphs / cases into the real code.  Exit status: 0 = ran to completion
//! (verdicts are in the output files), 1 = replay found a mismatch, 2 = usage / tool error.

mod alloc;
mod dut;
mod engines;
mod neon_emu;
mod ops;
mod util;

mod dispatch;
mod drive_code;
mod oneshot;
mod prims;
mod replay;
mod rows;
mod shardsdrv;
mod threads;

use std::collections::HashMap;

#[global_allocator]
static GLOBAL: alloc::Counting = alloc::Counting;

pub struct Args {
    pub cmd: String,
    pub kv: HashMap<String, String>,
}

impl Args {
    pub fn get(&self, k: &str) -> Option<&str> {
        self.kv.get(k).map(String::as_str)
    }
    pub fn req(&self, k: &str) -> &str {
        self.get(k).unwrap_or_else(|| {
            eprintln!("missing --{k}");
            std::process::exit(2)
        })
    }
    pub fn num(&self, k: &str, default: u64) -> u64 {
        self.get(k).map_or(default, |s| {
            s.parse().unwrap_or_else(|_| {
                eprintln!("bad number for --{k}");
                std::process::exit(2)
            })
        })
    }
    pub fn thorough(&self) -> bool {
        self.get("tier") == Some("thorough")
    }
}

fn main() {
    let mut it = std::env::args().skip(1);
    let cmd = it.next().unwrap_or_else(|| {
        eprintln!("usage: rsverif <cmd> [--key value]...");
        std::process::exit(2)
    });
    let mut kv = HashMap::new();
    while let Some(a) = it.next() {
        if let Some(k) = a.strip_prefix("--") {
            let v = it.next().unwrap_or_default();
            kv.insert(k.to_string(), v);
        } else {
            eprintln!("unexpected argument {a}");
            std::process::exit(2);
        }
    }
    let args = Args { cmd, kv };
    util::quiet_panics();
    let code = match args.cmd.as_str() {
        "code" => drive_code::main(&args),
        "oneshot" => oneshot::main(&args),
        "rows" => rows::main(&args),
        "threads" => threads::main(&args),
        "threads-child" => threads::child(&args),
        "gated" => threads::main_gated(&args),
        "dispatch" => dispatch::main(&args),
        "prims" => prims::main(&args),
        "shards" => shardsdrv::main(&args),
        "replay" => replay::main(&args),
        "freewalk" => replay::main_free(&args),
        "replay-script" => replay::main_script(&args),
        other => {
            eprintln!("unknown command {other}");
            2
        }
    };
    std::process::exit(code);
}
