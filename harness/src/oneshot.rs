//! Replays TLC-generated cases of OneShot.tla into reed_solomon_simd::encode / decode, side by
//! side with the streaming API (ReedSolomonEncoder / ReedSolomonDecoder) on the same arguments.

use crate::util::{self, Obj};
use crate::Args;
use reed_solomon_simd::{ReedSolomonDecoder, ReedSolomonEncoder};
use serde_json::Value;
use std::collections::{BTreeMap, BTreeSet};
use std::io::BufRead;
use std::panic::{catch_unwind, AssertUnwindSafe};

const B: usize = 64;

fn us(v: &Value) -> usize {
    util::dec(v.as_i64().expect("integer"))
}

fn canon_set(v: &Value) -> BTreeSet<String> {
    v.as_array().unwrap().iter().map(util::canon).collect()
}

fn ret_of<T>(r: &Result<Result<T, reed_solomon_simd::Error>, String>) -> String {
    match r {
        Ok(Ok(_)) => util::OK_JSON.to_string(),
        Ok(Err(e)) => util::err_json(e),
        Err(p) => p.clone(),
    }
}

macro_rules! guarded {
    ($e:expr) => {
        match catch_unwind(AssertUnwindSafe(|| $e)) {
            Ok(v) => Ok(v),
            Err(p) => Err(util::panic_json(&util::panic_message(&*p))),
        }
    };
}

fn round(seed: u64, rate: &str, k: usize, r: usize) -> Option<(Vec<Vec<u8>>, Vec<Vec<u8>>)> {
    if !(1..=16).contains(&k) || !(1..=16).contains(&r) || !crate::dut::supports_rate(rate, k, r) {
        return None;
    }
    let orig: Vec<Vec<u8>> = (0..k).map(|i| util::payload(seed, 0x15, i as u64, B)).collect();
    let rec = crate::dut::ref_encode(rate, k, r, &orig);
    Some((orig, rec))
}

/// Returns Err(what) on a mismatch.
pub fn run_case(seed: u64, c: &Value) -> Result<(), String> {
    crate::ops::poison_on(seed ^ 0x0515);
    let k = us(&c["k"]);
    let r = us(&c["r"]);
    let allowed = canon_set(&c["allowed"]);
    let rate = c["rate"].as_str().unwrap();
    let canon = |s: &str| util::canon(&serde_json::from_str::<Value>(s).unwrap());
    if c["fn"] == "encode" {
        let lens: Vec<usize> = c["L"].as_array().unwrap().iter().map(us).collect();
        let shards: Vec<Vec<u8>> = lens.iter().enumerate().map(|(t, l)| util::payload(seed, 7, t as u64, *l)).collect();
        let one = guarded!(reed_solomon_simd::encode(k, r, &shards));
        let ret = ret_of(&one);
        // the same call through an iterator whose size_hint says nothing (lower bound 0, no upper bound)
        let lazy = guarded!(reed_solomon_simd::encode(k, r, shards.iter().filter(|_| true).skip_while(|_| false)));
        match (&one, &lazy) {
            (Ok(a), Ok(b)) if a == b => {}
            (Err(_), Err(_)) => {}
            _ => return Err(format!("encode depends on the iterator type: slices give {ret}, a filtered iterator gives {}", ret_of(&lazy))),
        }
        // the same call fed by an iterator that itself uses the one-shot functions while it is being consumed (rows and
        // columns of a two-dimensional code): the inner calls must not disturb the outer one
        let nested = guarded!(reed_solomon_simd::encode(
            k,
            r,
            shards.iter().enumerate().map(|(i, s)| {
                if i >= 1 && s.len() >= 2 && s.len() % 2 == 0 {
                    let inner = reed_solomon_simd::encode(1, 2, [s]).expect("inner encode");
                    let back = reed_solomon_simd::decode(1, 2, [(0usize, s); 0], [(1usize, &inner[1])]).expect("inner decode");
                    assert_eq!(back[&0], *s, "inner round trip");
                }
                s
            })
        ));
        match (&one, &nested) {
            (Ok(a), Ok(b)) if a == b => {}
            (Err(_), Err(_)) => {}
            _ => return Err(format!("encode is disturbed by one-shot calls made while its argument is consumed: plain {ret}, nested {}", ret_of(&nested))),
        }
        if !allowed.contains(&canon(&ret)) {
            return Err(format!("encode returned {ret}, allowed by OneShot.tla: {allowed:?}"));
        }
        // streaming twin
        let twin = guarded!((|| -> Result<Vec<Vec<u8>>, reed_solomon_simd::Error> {
            if !ReedSolomonEncoder::supports(k, r) {
                return Err(reed_solomon_simd::Error::UnsupportedShardCount { original_count: k, recovery_count: r });
            }
            let Some(first) = shards.first() else {
                return Err(reed_solomon_simd::Error::TooFewOriginalShards { original_count: k, original_received_count: 0 });
            };
            let mut e = ReedSolomonEncoder::new(k, r, first.len())?;
            for s in &shards {
                e.add_original_shard(s)?;
            }
            let res = e.encode()?;
            let v: Vec<Vec<u8>> = res.recovery_iter().map(<[u8]>::to_vec).collect();
            Ok(v)
        })());
        match (&one, &twin) {
            (Ok(Ok(a)), Ok(Ok(b))) => {
                if a != b {
                    return Err("encode result differs from the streaming encoder on the same shards".into());
                }
                if a.len() != r || a.iter().any(|s| s.len() != lens[0]) {
                    return Err(format!("encode returned {} shards / wrong lengths for r={r}, size {}", a.len(), lens[0]));
                }
                if crate::dut::supports_rate(rate, k, r) {
                    let reference = crate::dut::ref_encode(rate, k, r, &shards);
                    if *a != reference {
                        return Err(format!("encode result differs from a fresh {rate}-rate reference encoder"));
                    }
                }
            }
            (Ok(Ok(_)), other) => return Err(format!("encode succeeded but the streaming sequence gives {}", ret_of(other))),
            (_, Ok(Ok(_))) => return Err(format!("encode returned {ret} but the streaming sequence succeeds")),
            _ => {}
        }
        Ok(())
    } else {
        let items = |v: &Value| -> Vec<(usize, usize)> { v.as_array().unwrap().iter().map(|x| (us(&x[0]), us(&x[1]))).collect() };
        let o_items = items(&c["O"]);
        let r_items = items(&c["R"]);
        let rd = round(seed, rate, k, r);
        let data = |which: usize, idx: usize, len: usize, t: usize| -> Vec<u8> {
            if let Some((orig, rec)) = &rd {
                let src = if which == 0 { orig.get(idx) } else { rec.get(idx) };
                if let Some(s) = src {
                    if len == B {
                        return s.clone();
                    }
                }
            }
            util::payload(seed, 0xBAD + which as u64, t as u64, len)
        };
        let o_sh: Vec<(usize, Vec<u8>)> = o_items.iter().enumerate().map(|(t, (i, l))| (*i, data(0, *i, *l, t))).collect();
        let r_sh: Vec<(usize, Vec<u8>)> = r_items.iter().enumerate().map(|(t, (i, l))| (*i, data(1, *i, *l, t))).collect();
        let one = guarded!(reed_solomon_simd::decode(
            k,
            r,
            o_sh.iter().map(|(i, s)| (*i, s)),
            r_sh.iter().map(|(i, s)| (*i, s))
        ));
        let ret = ret_of(&one);
        if !allowed.contains(&canon(&ret)) {
            return Err(format!("decode returned {ret}, allowed by OneShot.tla: {allowed:?}"));
        }
        let lazy = guarded!(reed_solomon_simd::decode(
            k,
            r,
            o_sh.iter().filter(|_| true).map(|(i, s)| (*i, s)),
            r_sh.iter().skip_while(|_| false).map(|(i, s)| (*i, s))
        ));
        match (&one, &lazy) {
            (Ok(a), Ok(b)) if a == b => {}
            (Err(_), Err(_)) => {}
            _ => return Err(format!("decode depends on the iterator type: vectors give {ret}, a filtered iterator gives {}", ret_of(&lazy))),
        }
        let nested = guarded!(reed_solomon_simd::decode(
            k,
            r,
            o_sh.iter().map(|(i, s)| (*i, s)),
            r_sh.iter().enumerate().map(|(t, (i, s))| {
                if t >= 1 && s.len() >= 2 && s.len() % 2 == 0 {
                    let inner = reed_solomon_simd::encode(1, 2, [s]).expect("inner encode");
                    let back = reed_solomon_simd::decode(1, 2, [(0usize, s); 0], [(0usize, &inner[0])]).expect("inner decode");
                    assert_eq!(back[&0], *s, "inner round trip");
                }
                (*i, s)
            })
        ));
        match (&one, &nested) {
            (Ok(a), Ok(b)) if a == b => {}
            (Err(_), Err(_)) => {}
            _ => return Err(format!("decode is disturbed by one-shot calls made while its arguments are consumed: plain {ret}, nested {}", ret_of(&nested))),
        }
        // streaming twin: decoder for the inferred size, originals then recovery
        let twin = guarded!((|| -> Result<BTreeMap<usize, Vec<u8>>, reed_solomon_simd::Error> {
            if !ReedSolomonDecoder::supports(k, r) {
                return Err(reed_solomon_simd::Error::UnsupportedShardCount { original_count: k, recovery_count: r });
            }
            let sb = match (r_sh.first(), o_sh.first()) {
                (Some(x), _) => x.1.len(),
                (None, Some(x)) => x.1.len(),
                (None, None) => {
                    return Err(reed_solomon_simd::Error::NotEnoughShards {
                        original_count: k,
                        original_received_count: 0,
                        recovery_received_count: 0,
                    })
                }
            };
            let mut d = ReedSolomonDecoder::new(k, r, sb)?;
            for (i, s) in &o_sh {
                d.add_original_shard(*i, s)?;
            }
            for (i, s) in &r_sh {
                d.add_recovery_shard(*i, s)?;
            }
            let res = d.decode()?;
            let m: BTreeMap<usize, Vec<u8>> = res.restored_original_iter().map(|(i, s)| (i, s.to_vec())).collect();
            Ok(m)
        })());
        match (&one, &twin) {
            (Ok(Ok(a)), Ok(Ok(b))) => {
                let a: BTreeMap<usize, Vec<u8>> = a.iter().map(|(i, s)| (*i, s.clone())).collect();
                if a != *b {
                    return Err("decode result differs from the streaming decoder on the same shards".into());
                }
                let want: BTreeSet<usize> = c["restored"].as_array().unwrap().iter().map(us).collect();
                let have: BTreeSet<usize> = a.keys().copied().collect();
                if want != have {
                    return Err(format!("decode restored indexes {have:?}, OneShot.tla says {want:?}"));
                }
                // the given shards are the round's codeword only when every one of them has the round's size
                let consistent = o_items.iter().chain(r_items.iter()).all(|(_, l)| *l == B);
                if let (Some((orig, _)), true) = (&rd, consistent) {
                    for (i, s) in &a {
                        if *s != orig[*i] {
                            return Err(format!("decode: restored original {i} is not the original shard"));
                        }
                    }
                }
            }
            (Ok(Ok(_)), other) => return Err(format!("decode succeeded but the streaming sequence gives {}", ret_of(other))),
            (_, Ok(Ok(_))) => return Err(format!("decode returned {ret} but the streaming sequence succeeds")),
            _ => {}
        }
        Ok(())
    }
}

/// Replaces the base sizes 64 and 66 by `base` and `base + 2` everywhere below `v`.
fn rescale(v: &mut Value, base: i64) {
    match v {
        Value::Number(n) => {
            if n.as_i64() == Some(64) {
                *v = Value::from(base);
            } else if n.as_i64() == Some(66) {
                *v = Value::from(base + 2);
            }
        }
        Value::Array(a) => a.iter_mut().for_each(|x| rescale(x, base)),
        Value::Object(m) => m.values_mut().for_each(|x| rescale(x, base)),
        _ => {}
    }
}

fn small_counts(c: &Value) -> bool {
    let ok = |k: &str| c[k].as_i64().is_some_and(|x| (0..=16).contains(&x));
    ok("k") && ok("r")
}

pub fn main(args: &Args) -> i32 {
    let seed = args.num("seed", 1);
    let big_every = args.num("big-every", 0) as usize;
    let outdir = args.req("outdir").to_string();
    let f = std::fs::File::open(args.req("cases")).expect("cases");
    let lines: Vec<String> = std::io::BufReader::new(f).lines().map(Result::unwrap).filter(|l| !l.trim().is_empty()).collect();
    let threads = args.num("threads", 12) as usize;
    let chunks: Vec<Vec<&String>> = (0..threads).map(|p| lines.iter().skip(p).step_by(threads).collect()).collect();
    let results: Vec<Vec<(String, String)>> = std::thread::scope(|sc| {
        let hs: Vec<_> = chunks
            .iter()
            .map(|chunk| {
                sc.spawn(move || {
                    let mut v = Vec::new();
                    for (li, l) in chunk.iter().enumerate() {
                        let c: Value = serde_json::from_str(l).expect("case json");
                        if let Err(w) = run_case(seed, &c) {
                            v.push((w, (*l).clone()));
                        }
                        // the same case with the base shard size 64 replaced by a large one (the contract does not
                        // depend on the size): striped / tiled paths of the one-shot functions
                        if big_every > 0 && (li + seed as usize) % big_every == 0 && small_counts(&c) {
                            let base = [32768i64, 16448, 40960, 65536][(li / big_every) % 4];
                            let mut c2 = c.clone();
                            for key in ["L", "O", "R", "allowed"] {
                                if let Some(x) = c2.get_mut(key) {
                                    rescale(x, base);
                                }
                            }
                            if let Err(w) = run_case(seed, &c2) {
                                v.push((w, c2.to_string()));
                            }
                        }
                    }
                    v
                })
            })
            .collect();
        hs.into_iter().map(|h| h.join().unwrap()).collect()
    });
    let mut viol = Vec::new();
    let _ = std::fs::create_dir_all(&outdir);
    for (w, case) in results.into_iter().flatten() {
        let c: Value = serde_json::from_str(&case).unwrap();
        let n = viol.len();
        let path = format!("{outdir}/violation-oneshot-{n}.json");
        if n < 200 {
            std::fs::write(&path, &case).unwrap();
        }
        let nrec = c.get("R").map_or(0, |r| r.as_array().unwrap().len());
        viol.push(
            Obj::new()
                .str("what", &format!("{w}; case {}", brief(&c)))
                .str("replay", &path)
                .str("fn", c["fn"].as_str().unwrap())
                .int("recovery_given", nrec as i64)
                .done(),
        );
    }
    println!("{{\"cases\":{},\"violations\":{}}}", lines.len(), util::arr_json(&viol));
    i32::from(!viol.is_empty())
}

fn brief(c: &Value) -> String {
    let mut m = serde_json::Map::new();
    for (k, v) in c.as_object().unwrap() {
        if k != "allowed" {
            m.insert(k.clone(), v.clone());
        }
    }
    Value::Object(m).to_string()
}
