//! Devices under test: one enum per role covering every codec kind, generic over the engine.

use crate::engines::MkEngine;
use reed_solomon_simd::rate::{
    DefaultRateDecoder, DefaultRateEncoder, HighRateDecoder, HighRateEncoder, LowRateDecoder,
    LowRateEncoder, RateDecoder, RateEncoder,
};
use reed_solomon_simd::verif::{DecoderSnapshot, EncoderSnapshot, InnerRate};
use reed_solomon_simd::{
    DecoderResult, EncoderResult, Error, ReedSolomonDecoder, ReedSolomonEncoder,
};

#[derive(Clone, Copy, Debug, PartialEq, Eq)]
pub enum Kind {
    High,
    Low,
    Default,
    Rs,
}

impl Kind {
    pub fn parse(s: &str) -> Kind {
        match s {
            "high" => Kind::High,
            "low" => Kind::Low,
            "default" => Kind::Default,
            "rs" => Kind::Rs,
            _ => panic!("unknown kind {s}"),
        }
    }
    pub fn name(self) -> &'static str {
        match self {
            Kind::High => "high",
            Kind::Low => "low",
            Kind::Default => "default",
            Kind::Rs => "rs",
        }
    }
}

fn rate_name(r: InnerRate) -> &'static str {
    match r {
        InnerRate::High => "high",
        InnerRate::Low => "low",
        InnerRate::None => "none",
    }
}

// ======================================================================
// Encoder

pub enum EncObj<E: MkEngine> {
    High(HighRateEncoder<E>),
    Low(LowRateEncoder<E>),
    Default(DefaultRateEncoder<E>),
    Rs(ReedSolomonEncoder),
}

impl<E: MkEngine> EncObj<E> {
    pub fn new(kind: Kind, k: usize, r: usize, sb: usize) -> Result<Self, Error> {
        Ok(match kind {
            Kind::High => EncObj::High(HighRateEncoder::new(k, r, sb, E::mk(), None)?),
            Kind::Low => EncObj::Low(LowRateEncoder::new(k, r, sb, E::mk(), None)?),
            Kind::Default => EncObj::Default(DefaultRateEncoder::new(k, r, sb, E::mk(), None)?),
            Kind::Rs => EncObj::Rs(ReedSolomonEncoder::new(k, r, sb)?),
        })
    }
    pub fn kind(&self) -> Kind {
        match self {
            EncObj::High(_) => Kind::High,
            EncObj::Low(_) => Kind::Low,
            EncObj::Default(_) => Kind::Default,
            EncObj::Rs(_) => Kind::Rs,
        }
    }
    pub fn add(&mut self, shard: &[u8]) -> Result<(), Error> {
        match self {
            EncObj::High(x) => x.add_original_shard(shard),
            EncObj::Low(x) => x.add_original_shard(shard),
            EncObj::Default(x) => x.add_original_shard(shard),
            EncObj::Rs(x) => x.add_original_shard(shard),
        }
    }
    pub fn reset(&mut self, k: usize, r: usize, sb: usize) -> Result<(), Error> {
        match self {
            EncObj::High(x) => x.reset(k, r, sb),
            EncObj::Low(x) => x.reset(k, r, sb),
            EncObj::Default(x) => x.reset(k, r, sb),
            EncObj::Rs(x) => x.reset(k, r, sb),
        }
    }
    pub fn encode(&mut self) -> Result<EncoderResult<'_>, Error> {
        match self {
            EncObj::High(x) => x.encode(),
            EncObj::Low(x) => x.encode(),
            EncObj::Default(x) => x.encode(),
            EncObj::Rs(x) => x.encode(),
        }
    }
    /// into_parts + new(kind', Some(work)); not available for the `rs` wrapper.
    pub fn rehouse(self, kind: Kind, k: usize, r: usize, sb: usize) -> Result<Self, Error> {
        let (engine, work) = match self {
            EncObj::High(x) => x.into_parts(),
            EncObj::Low(x) => x.into_parts(),
            EncObj::Default(x) => x.into_parts(),
            EncObj::Rs(_) => panic!("rehouse of rs"),
        };
        Ok(match kind {
            Kind::High => EncObj::High(HighRateEncoder::new(k, r, sb, engine, Some(work))?),
            Kind::Low => EncObj::Low(LowRateEncoder::new(k, r, sb, engine, Some(work))?),
            Kind::Default => {
                EncObj::Default(DefaultRateEncoder::new(k, r, sb, engine, Some(work))?)
            }
            Kind::Rs => panic!("rehouse into rs"),
        })
    }
    /// (inner rate, snapshot); snapshot is None when the inner codec is missing.
    pub fn snap(&self) -> (&'static str, Option<EncoderSnapshot>) {
        match self {
            EncObj::High(x) => ("high", Some(x.verif_work().verif_snapshot())),
            EncObj::Low(x) => ("low", Some(x.verif_work().verif_snapshot())),
            EncObj::Default(x) => (
                rate_name(x.verif_rate()),
                x.verif_work().map(|w| w.verif_snapshot()),
            ),
            EncObj::Rs(x) => {
                let x = x.verif_inner();
                (
                    rate_name(x.verif_rate()),
                    x.verif_work().map(|w| w.verif_snapshot()),
                )
            }
        }
    }
}

// ======================================================================
// Decoder

pub enum DecObj<E: MkEngine> {
    High(HighRateDecoder<E>),
    Low(LowRateDecoder<E>),
    Default(DefaultRateDecoder<E>),
    Rs(ReedSolomonDecoder),
}

impl<E: MkEngine> DecObj<E> {
    pub fn new(kind: Kind, k: usize, r: usize, sb: usize) -> Result<Self, Error> {
        Ok(match kind {
            Kind::High => DecObj::High(HighRateDecoder::new(k, r, sb, E::mk(), None)?),
            Kind::Low => DecObj::Low(LowRateDecoder::new(k, r, sb, E::mk(), None)?),
            Kind::Default => DecObj::Default(DefaultRateDecoder::new(k, r, sb, E::mk(), None)?),
            Kind::Rs => DecObj::Rs(ReedSolomonDecoder::new(k, r, sb)?),
        })
    }
    pub fn kind(&self) -> Kind {
        match self {
            DecObj::High(_) => Kind::High,
            DecObj::Low(_) => Kind::Low,
            DecObj::Default(_) => Kind::Default,
            DecObj::Rs(_) => Kind::Rs,
        }
    }
    pub fn add_original(&mut self, index: usize, shard: &[u8]) -> Result<(), Error> {
        match self {
            DecObj::High(x) => x.add_original_shard(index, shard),
            DecObj::Low(x) => x.add_original_shard(index, shard),
            DecObj::Default(x) => x.add_original_shard(index, shard),
            DecObj::Rs(x) => x.add_original_shard(index, shard),
        }
    }
    pub fn add_recovery(&mut self, index: usize, shard: &[u8]) -> Result<(), Error> {
        match self {
            DecObj::High(x) => x.add_recovery_shard(index, shard),
            DecObj::Low(x) => x.add_recovery_shard(index, shard),
            DecObj::Default(x) => x.add_recovery_shard(index, shard),
            DecObj::Rs(x) => x.add_recovery_shard(index, shard),
        }
    }
    pub fn reset(&mut self, k: usize, r: usize, sb: usize) -> Result<(), Error> {
        match self {
            DecObj::High(x) => x.reset(k, r, sb),
            DecObj::Low(x) => x.reset(k, r, sb),
            DecObj::Default(x) => x.reset(k, r, sb),
            DecObj::Rs(x) => x.reset(k, r, sb),
        }
    }
    pub fn decode(&mut self) -> Result<DecoderResult<'_>, Error> {
        match self {
            DecObj::High(x) => x.decode(),
            DecObj::Low(x) => x.decode(),
            DecObj::Default(x) => x.decode(),
            DecObj::Rs(x) => x.decode(),
        }
    }
    pub fn rehouse(self, kind: Kind, k: usize, r: usize, sb: usize) -> Result<Self, Error> {
        let (engine, work) = match self {
            DecObj::High(x) => x.into_parts(),
            DecObj::Low(x) => x.into_parts(),
            DecObj::Default(x) => x.into_parts(),
            DecObj::Rs(_) => panic!("rehouse of rs"),
        };
        Ok(match kind {
            Kind::High => DecObj::High(HighRateDecoder::new(k, r, sb, engine, Some(work))?),
            Kind::Low => DecObj::Low(LowRateDecoder::new(k, r, sb, engine, Some(work))?),
            Kind::Default => {
                DecObj::Default(DefaultRateDecoder::new(k, r, sb, engine, Some(work))?)
            }
            Kind::Rs => panic!("rehouse into rs"),
        })
    }
    pub fn snap(&self) -> (&'static str, Option<DecoderSnapshot>) {
        match self {
            DecObj::High(x) => ("high", Some(x.verif_work().verif_snapshot())),
            DecObj::Low(x) => ("low", Some(x.verif_work().verif_snapshot())),
            DecObj::Default(x) => (
                rate_name(x.verif_rate()),
                x.verif_work().map(|w| w.verif_snapshot()),
            ),
            DecObj::Rs(x) => {
                let x = x.verif_inner();
                (
                    rate_name(x.verif_rate()),
                    x.verif_work().map(|w| w.verif_snapshot()),
                )
            }
        }
    }
}

// ======================================================================
// Reference rounds: fresh dedicated-rate codec, reference engine, poison off.

use reed_solomon_simd::engine::Naive;

/// Which dedicated rate the documented rule selects (the harness's own copy is NOT used as an
/// oracle anywhere: callers pass the rate the specification computed, or the codec's own choice).
pub fn ref_encode(rate: &str, k: usize, r: usize, originals: &[Vec<u8>]) -> Vec<Vec<u8>> {
    let saved = reed_solomon_simd::verif::poison();
    reed_solomon_simd::verif::set_poison(0);
    let sb = originals[0].len();
    let out = match rate {
        "high" => {
            let mut e = HighRateEncoder::new(k, r, sb, Naive::new(), None).expect("ref enc new");
            for o in originals {
                e.add_original_shard(o).expect("ref enc add");
            }
            let res = e.encode().expect("ref encode");
            res.recovery_iter().map(<[u8]>::to_vec).collect()
        }
        "low" => {
            let mut e = LowRateEncoder::new(k, r, sb, Naive::new(), None).expect("ref enc new");
            for o in originals {
                e.add_original_shard(o).expect("ref enc add");
            }
            let res = e.encode().expect("ref encode");
            res.recovery_iter().map(<[u8]>::to_vec).collect()
        }
        _ => panic!("rate {rate}"),
    };
    reed_solomon_simd::verif::set_poison(saved);
    out
}

pub fn supports_rate(rate: &str, k: usize, r: usize) -> bool {
    use reed_solomon_simd::rate::{HighRate, LowRate, Rate};
    match rate {
        "high" => HighRate::<Naive>::supports(k, r),
        "low" => LowRate::<Naive>::supports(k, r),
        _ => false,
    }
}
