//! Shared helpers: usize <-> TLC integer encoding, digests, seeded payloads, JSON output.

use rand::{RngCore, SeedableRng};
use rand_chacha::ChaCha8Rng;
use std::fmt::Write as _;
use std::io::Write as _;

// ----------------------------------------------------------------------
// usize encoding (TLC integers are 32-bit)
//
//   v < 2^30                 -> v
//   usize::MAX - v < 2^20    -> -(usize::MAX - v) - 1        (-1 = MAX, -2 = MAX-1, ...)
//   anything else            -> -(2^20 + 2n + [v even]) - 1, n = index in the per-process table of "other big" values
//
// The specifications only need: negative means "larger than every legal count", and
// the encoding is injective (error fields must echo the argument exactly).

const SMALL: usize = 1 << 30;
const NEAR: usize = 1 << 20;

static OTHER_BIG: std::sync::Mutex<Vec<usize>> = std::sync::Mutex::new(Vec::new());

pub fn enc(v: usize) -> i64 {
    if v < SMALL {
        v as i64
    } else if usize::MAX - v < NEAR {
        -((usize::MAX - v) as i64) - 1
    } else {
        let mut t = OTHER_BIG.lock().unwrap();
        let n = match t.iter().position(|x| *x == v) {
            Some(n) => n,
            None => {
                t.push(v);
                t.len() - 1
            }
        };
        // keep parity visible: d even <=> v odd (usize::MAX is odd), as for the near-MAX range
        -((NEAR + 2 * n + usize::from(v % 2 == 0)) as i64) - 1
    }
}

pub fn dec(e: i64) -> usize {
    if e >= 0 {
        e as usize
    } else {
        let d = (-(e + 1)) as usize;
        if d < NEAR {
            usize::MAX - d
        } else {
            let t = OTHER_BIG.lock().unwrap();
            match t.get((d - NEAR) / 2) {
                Some(v) => *v,
                // graphs may name "other big" values symbolically: map them deterministically (parity kept)
                None => (1usize << 40) + ((d - NEAR) / 2) * 0x1_0000_0002 + usize::from((d - NEAR) % 2 == 0),
            }
        }
    }
}

// ----------------------------------------------------------------------
// FNV-1a 64

pub fn fnv(data: &[u8]) -> u64 {
    let mut h: u64 = 0xcbf29ce484222325;
    for b in data {
        h ^= u64::from(*b);
        h = h.wrapping_mul(0x100000001b3);
    }
    h
}

pub fn fnv_hex(data: &[u8]) -> String {
    format!("{:016x}", fnv(data))
}

pub fn fnv_many<'a>(parts: impl IntoIterator<Item = &'a [u8]>) -> u64 {
    let mut h: u64 = 0xcbf29ce484222325;
    for p in parts {
        // length prefix so that the split matters
        for b in (p.len() as u64).to_le_bytes() {
            h ^= u64::from(b);
            h = h.wrapping_mul(0x100000001b3);
        }
        for b in p {
            h ^= u64::from(*b);
            h = h.wrapping_mul(0x100000001b3);
        }
    }
    h
}

// ----------------------------------------------------------------------
// Payloads: a pure function of (seed, tag, index, length)

pub fn payload(seed: u64, tag: u64, index: u64, len: usize) -> Vec<u8> {
    payload_with(seed, tag, index, len, None)
}

/// Number of round-level structures `payload_with` knows.
pub const ROUND_KINDS: u64 = 12;

/// `payload`, with the round-level structure forced to `kind` (see below) instead of drawn from (seed, tag).
pub fn payload_with(seed: u64, tag: u64, index: u64, len: usize, kind: Option<u64>) -> Vec<u8> {
    let mut key = [0u8; 32];
    key[..8].copy_from_slice(&seed.to_le_bytes());
    key[8..16].copy_from_slice(&tag.to_le_bytes());
    key[16..24].copy_from_slice(&index.to_le_bytes());
    key[24..32].copy_from_slice(&0x5eed_u64.to_le_bytes());
    let mut rng = ChaCha8Rng::from_seed(key);
    let mut v = vec![0u8; len];
    rng.fill_bytes(&mut v);
    // a quarter of all payloads are STRUCTURED rather than uniformly random: whole 64-byte blocks
    // (or the whole of a short shard) are zero, as in zero-padded messages and sparse data -
    // shortcuts for all-zero blocks are only exercised by such data
    let h = rng.next_u64();
    if h % 4 == 0 {
        // per 64-byte block (the final partial block counts as one): zero block, zero low-byte half, zero
        // high-byte half, a single non-zero byte, all ones, or left random
        let mut bits = h >> 2;
        for chunk in v.chunks_mut(64) {
            let n = chunk.len();
            match bits % 8 {
                0 | 1 => chunk.fill(0),
                2 => chunk[..n / 2].fill(0),
                3 => chunk[n / 2..].fill(0),
                4 => {
                    let keep = (bits >> 3) as usize % n;
                    let b = chunk[keep] | 1;
                    chunk.fill(0);
                    chunk[keep] = b;
                }
                5 => chunk.fill(0xFF),
                // 7-bit ("text") bytes and low-nibble-only bytes: SIMD kernels that test sign bits or nibbles
                6 => chunk.iter_mut().for_each(|b| *b &= 0x7F),
                _ => chunk.iter_mut().for_each(|b| *b &= if bits & 64 == 0 { 0x0F } else { 0xFF }),
            }
            bits = bits.rotate_right(5) ^ 0x9E37_79B9;
        }
    }
    // ROUND-LEVEL structure: all payloads of one (seed, tag) - the shards of one round - share it, so that it survives the
    // linear transforms (a slot that is zero in every shard stays zero in every intermediate value): the same symbol
    // lanes zero in every 64-byte block of every shard (SIMD kernels that test lane masks), the same block zero in every
    // shard, or all shards from some index on zero except a short footer / header (zero-padded messages with a trailer)
    let mut rk = [0u8; 32];
    rk[..8].copy_from_slice(&seed.to_le_bytes());
    rk[8..16].copy_from_slice(&tag.to_le_bytes());
    rk[24..32].copy_from_slice(&0x40b1d_u64.to_le_bytes());
    let g = ChaCha8Rng::from_seed(rk).next_u64();
    if (g % 5 == 0 || kind.is_some()) && len >= 2 {
        let kind = kind.unwrap_or((g >> 8) % ROUND_KINDS);
        let lane_zero = |s: usize| -> bool {
            match kind {
                0 => s < 16,
                1 => s >= 16,
                2 => s < 8,
                3 => s >= 24,
                4 => s % 2 == 0,
                5 => (s / 4) % 2 == 0,
                6 => s != ((g >> 16) % 32) as usize,
                _ => false,
            }
        };
        match kind {
            0..=6 => {
                for (j, b) in v.iter_mut().enumerate() {
                    if lane_zero(j % 32) {
                        *b = 0;
                    }
                }
            }
            7 | 8 => {
                // the same 64-byte block zero in every shard
                let nb = len.div_ceil(64);
                let blk = ((g >> 16) as usize) % nb;
                let end = (blk * 64 + 64).min(len);
                v[blk * 64..end].fill(0);
            }
            _ => {
                // shards from some index on: zero except a footer (9, 10) or a header (11) of 1..4 bytes
                let cut = (g >> 16) % 6;
                if index % 1000 >= cut {
                    let keep = 1 + ((g >> 24) % 4) as usize;
                    let keep = keep.min(len);
                    if kind == 11 {
                        v[keep..].fill(0);
                        v[0] |= 1;
                    } else {
                        v[..len - keep].fill(0);
                        v[len - 1] |= 1;
                    }
                }
            }
        }
    }
    v
}

pub fn rng(seed: u64, stream: u64) -> ChaCha8Rng {
    let mut key = [0u8; 32];
    key[..8].copy_from_slice(&seed.to_le_bytes());
    key[8..16].copy_from_slice(&stream.to_le_bytes());
    ChaCha8Rng::from_seed(key)
}

// ----------------------------------------------------------------------
// JSON writing (hand-rolled: traces are large and flat)

pub struct Obj {
    s: String,
    first: bool,
}

impl Obj {
    pub fn new() -> Self {
        Obj {
            s: String::from("{"),
            first: true,
        }
    }
    fn key(&mut self, k: &str) {
        if !self.first {
            self.s.push(',');
        }
        self.first = false;
        let _ = write!(self.s, "\"{}\":", k);
    }
    pub fn str(mut self, k: &str, v: &str) -> Self {
        self.key(k);
        self.s.push_str(&serde_json::to_string(v).unwrap());
        self
    }
    pub fn int(mut self, k: &str, v: i64) -> Self {
        self.key(k);
        let _ = write!(self.s, "{}", v);
        self
    }
    pub fn us(self, k: &str, v: usize) -> Self {
        self.int(k, enc(v))
    }
    pub fn bool(mut self, k: &str, v: bool) -> Self {
        self.key(k);
        self.s.push_str(if v { "true" } else { "false" });
        self
    }
    pub fn raw(mut self, k: &str, v: &str) -> Self {
        self.key(k);
        self.s.push_str(v);
        self
    }
    /// Appends pre-rendered `"key":value,...` text.
    pub fn fields(mut self, text: &str) -> Self {
        if !text.is_empty() {
            if !self.first {
                self.s.push(',');
            }
            self.first = false;
            self.s.push_str(text);
        }
        self
    }
    pub fn bytes(mut self, k: &str, v: &[u8]) -> Self {
        self.key(k);
        self.s.push_str(&bytes_json(v));
        self
    }
    pub fn ints<I: IntoIterator<Item = i64>>(mut self, k: &str, v: I) -> Self {
        self.key(k);
        self.s.push('[');
        let mut f = true;
        for x in v {
            if !f {
                self.s.push(',');
            }
            f = false;
            let _ = write!(self.s, "{}", x);
        }
        self.s.push(']');
        self
    }
    pub fn uss<'a, I: IntoIterator<Item = &'a usize>>(self, k: &str, v: I) -> Self {
        self.ints(k, v.into_iter().map(|x| enc(*x)))
    }
    pub fn done(mut self) -> String {
        self.s.push('}');
        self.s
    }
}

pub fn bytes_json(v: &[u8]) -> String {
    let mut s = String::with_capacity(v.len() * 4 + 2);
    s.push('[');
    for (i, b) in v.iter().enumerate() {
        if i > 0 {
            s.push(',');
        }
        let _ = write!(s, "{}", b);
    }
    s.push(']');
    s
}

pub fn arr_json(items: &[String]) -> String {
    let mut s = String::from("[");
    for (i, it) in items.iter().enumerate() {
        if i > 0 {
            s.push(',');
        }
        s.push_str(it);
    }
    s.push(']');
    s
}

/// Line-oriented trace writer.
pub struct Trace {
    w: std::io::BufWriter<std::fs::File>,
    pub lines: usize,
}

impl Trace {
    pub fn create(path: &str) -> Self {
        if let Some(dir) = std::path::Path::new(path).parent() {
            let _ = std::fs::create_dir_all(dir);
        }
        Trace {
            w: std::io::BufWriter::new(std::fs::File::create(path).expect("create trace")),
            lines: 0,
        }
    }
    pub fn line(&mut self, s: &str) {
        self.w.write_all(s.as_bytes()).unwrap();
        self.w.write_all(b"\n").unwrap();
        self.lines += 1;
    }
    pub fn finish(mut self) -> usize {
        self.w.flush().unwrap();
        self.lines
    }
}

// ----------------------------------------------------------------------
// Panic capture

pub fn quiet_panics() {
    std::panic::set_hook(Box::new(|_| {}));
}

pub fn panic_message(e: &(dyn std::any::Any + Send)) -> String {
    if let Some(s) = e.downcast_ref::<&str>() {
        (*s).to_string()
    } else if let Some(s) = e.downcast_ref::<String>() {
        s.clone()
    } else {
        "panic".to_string()
    }
}

// ----------------------------------------------------------------------
// Error -> JSON (variant and fields)

pub fn err_json(e: &reed_solomon_simd::Error) -> String {
    use reed_solomon_simd::Error::*;
    match *e {
        DifferentShardSize { shard_bytes, got } => Obj::new()
            .str("err", "DifferentShardSize")
            .us("shard_bytes", shard_bytes)
            .us("got", got)
            .done(),
        DuplicateOriginalShardIndex { index } => Obj::new()
            .str("err", "DuplicateOriginalShardIndex")
            .us("index", index)
            .done(),
        DuplicateRecoveryShardIndex { index } => Obj::new()
            .str("err", "DuplicateRecoveryShardIndex")
            .us("index", index)
            .done(),
        InvalidOriginalShardIndex {
            original_count,
            index,
        } => Obj::new()
            .str("err", "InvalidOriginalShardIndex")
            .us("original_count", original_count)
            .us("index", index)
            .done(),
        InvalidRecoveryShardIndex {
            recovery_count,
            index,
        } => Obj::new()
            .str("err", "InvalidRecoveryShardIndex")
            .us("recovery_count", recovery_count)
            .us("index", index)
            .done(),
        InvalidShardSize { shard_bytes } => Obj::new()
            .str("err", "InvalidShardSize")
            .us("shard_bytes", shard_bytes)
            .done(),
        NotEnoughShards {
            original_count,
            original_received_count,
            recovery_received_count,
        } => Obj::new()
            .str("err", "NotEnoughShards")
            .us("original_count", original_count)
            .us("original_received_count", original_received_count)
            .us("recovery_received_count", recovery_received_count)
            .done(),
        TooFewOriginalShards {
            original_count,
            original_received_count,
        } => Obj::new()
            .str("err", "TooFewOriginalShards")
            .us("original_count", original_count)
            .us("original_received_count", original_received_count)
            .done(),
        TooManyOriginalShards { original_count } => Obj::new()
            .str("err", "TooManyOriginalShards")
            .us("original_count", original_count)
            .done(),
        UnsupportedShardCount {
            original_count,
            recovery_count,
        } => Obj::new()
            .str("err", "UnsupportedShardCount")
            .us("original_count", original_count)
            .us("recovery_count", recovery_count)
            .done(),
    }
}

pub const OK_JSON: &str = "{\"ok\":true}";

pub fn panic_json(msg: &str) -> String {
    Obj::new().str("err", "PANIC").str("msg", msg).done()
}

/// Canonical form for comparing return values: parse and re-serialise with sorted keys.
pub fn canon(v: &serde_json::Value) -> String {
    // serde_json maps are BTreeMap by default (no preserve_order feature): keys sorted
    serde_json::to_string(v).unwrap()
}

pub fn env_u64(name: &str, default: u64) -> u64 {
    std::env::var(name)
        .ok()
        .and_then(|s| s.parse().ok())
        .unwrap_or(default)
}
