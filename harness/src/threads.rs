//! Driver "threads": concurrency of independent codec objects and racing first-use initialisation
//! of the global tables (C16).  The parent re-executes this binary as fresh child processes (tables
//! uninitialised in each):
//!
//!   probe-table  force one table alone, single-threaded: the nesting of its init events is the
//!                table's actual dependency set (input of MC_TableInit)
//!   probe-prog   construct and use one engine single-threaded: the top-level init events are the
//!                "program" of that engine (input of MC_TableInit)
//!   race         N threads released by a barrier, each constructing a different engine and running
//!                rounds; half of them hand their encoder / decoder to another thread in the
//!                middle of a round
//!
//! The parent writes deps.ndjson (observed dependencies and programs) and trace.ndjson (events of
//! every child, validated by Trace_TableInit.tla).

use crate::dut::{DecObj, EncObj, Kind};
use crate::engines::MkEngine;
use crate::util::{self, Obj, Trace};
use crate::{with_engine, Args};
use reed_solomon_simd::engine::tables;
use reed_solomon_simd::verif;
use std::io::Read;
use std::process::{Command, Stdio};
use std::sync::{mpsc, Arc, Barrier};
use std::time::{Duration, Instant};

/// Engines this host can run (the same list in the parent and in every child, so expected digests agree).
fn engines() -> Vec<&'static str> {
    crate::engines::usable_engines()
}
const TABLES: [&str; 5] = ["EXP_LOG", "LOG_WALSH", "MUL16", "MUL128", "SKEW"];

#[derive(Clone, Copy)]
struct Scn {
    engine: &'static str,
    k: usize,
    r: usize,
    sb: usize,
    handover: bool,
}

fn scenario(i: usize, seed: u64) -> Scn {
    let cfgs = [(5usize, 3usize, 64usize), (3, 5, 66), (20, 7, 2), (7, 20, 130), (64, 64, 64), (200, 30, 6)];
    let (k, r, sb) = cfgs[(i + seed as usize) % cfgs.len()];
    Scn { engine: engines()[(i * 5 + seed as usize) % engines().len()], k, r, sb, handover: false }
}

/// The whole scenario on the calling thread: encode, then decode at maximum loss. Returns a digest.
fn run_scn<E: MkEngine>(s: &Scn, seed: u64) -> String {
    let orig: Vec<Vec<u8>> = (0..s.k).map(|i| util::payload(seed, 0x16, i as u64, s.sb)).collect();
    let mut enc = EncObj::<E>::new(Kind::Default, s.k, s.r, s.sb).unwrap();
    for o in &orig {
        enc.add(o).unwrap();
    }
    let rec: Vec<Vec<u8>> = enc.encode().unwrap().recovery_iter().map(<[u8]>::to_vec).collect();
    let mut dec = DecObj::<E>::new(Kind::Default, s.k, s.r, s.sb).unwrap();
    let nrec = s.r.min(s.k);
    for j in 0..nrec {
        dec.add_recovery(j, &rec[j]).unwrap();
    }
    for i in nrec..s.k {
        dec.add_original(i, &orig[i]).unwrap();
    }
    let restored: Vec<Vec<u8>> = dec.decode().unwrap().restored_original_iter().map(|(_, b)| b.to_vec()).collect();
    for (i, b) in restored.iter().enumerate() {
        assert_eq!(*b, orig[i], "restored original {i} differs");
    }
    let parts: Vec<&[u8]> = rec.iter().chain(restored.iter()).map(Vec::as_slice).collect();
    format!("{:016x}", util::fnv_many(parts))
}

/// First half of a handed-over scenario: objects with some shards added.
fn start_scn<E: MkEngine>(s: &Scn, seed: u64) -> (EncObj<E>, Vec<Vec<u8>>) {
    let orig: Vec<Vec<u8>> = (0..s.k).map(|i| util::payload(seed, 0x16, i as u64, s.sb)).collect();
    let mut enc = EncObj::<E>::new(Kind::Default, s.k, s.r, s.sb).unwrap();
    for o in orig.iter().take(s.k / 2) {
        enc.add(o).unwrap();
    }
    (enc, orig)
}

/// Second half, on another thread: finish the encode round, then decode with a decoder that is
/// itself moved in mid-round.
fn finish_scn<E: MkEngine>(s: &Scn, mut enc: EncObj<E>, orig: &[Vec<u8>], mut dec: DecObj<E>, rec_given: usize) -> String {
    for o in orig.iter().skip(s.k / 2) {
        enc.add(o).unwrap();
    }
    let rec: Vec<Vec<u8>> = enc.encode().unwrap().recovery_iter().map(<[u8]>::to_vec).collect();
    let nrec = s.r.min(s.k);
    // the decoder arrives with originals nrec.. already added by the first thread
    let _ = rec_given;
    for j in 0..nrec {
        dec.add_recovery(j, &rec[j]).unwrap();
    }
    let restored: Vec<Vec<u8>> = dec.decode().unwrap().restored_original_iter().map(|(_, b)| b.to_vec()).collect();
    for (i, b) in restored.iter().enumerate() {
        assert_eq!(*b, orig[i], "restored original {i} differs");
    }
    let parts: Vec<&[u8]> = rec.iter().chain(restored.iter()).map(Vec::as_slice).collect();
    format!("{:016x}", util::fnv_many(parts))
}

/// Rounds of one decoder (and one encoder) that is moved to another thread BETWEEN rounds, with the same loss
/// pattern in every round and fresh data each time. `hop` is called between rounds with the objects and must
/// return them (possibly after sending them through another thread).
fn multi_round<E: MkEngine>(seed: u64, rounds: usize, mut hop: impl FnMut(EncObj<E>, DecObj<E>) -> (EncObj<E>, DecObj<E>)) -> String {
    let (k, r, sb) = (7usize, 4usize, 66usize);
    let mut enc = EncObj::<E>::new(Kind::Default, k, r, sb).unwrap();
    let mut dec = DecObj::<E>::new(Kind::Default, k, r, sb).unwrap();
    let mut all: Vec<Vec<u8>> = Vec::new();
    for round in 0..rounds {
        let orig: Vec<Vec<u8>> = (0..k).map(|i| util::payload(seed + round as u64, 0x17, i as u64, sb)).collect();
        for o in &orig {
            enc.add(o).unwrap();
        }
        let rec: Vec<Vec<u8>> = enc.encode().unwrap().recovery_iter().map(<[u8]>::to_vec).collect();
        // the same shards are lost in every round: originals 0, 2, 5
        for i in [1usize, 3, 4, 6] {
            dec.add_original(i, &orig[i]).unwrap();
        }
        for j in [0usize, 1, 3] {
            dec.add_recovery(j, &rec[j]).unwrap();
        }
        {
            let res = dec.decode().unwrap();
            for (i, b) in res.restored_original_iter() {
                assert_eq!(b, &orig[i][..], "round {round}: restored original {i} differs");
                all.push(b.to_vec());
            }
        }
        all.extend(rec);
        let (e2, d2) = hop(enc, dec);
        enc = e2;
        dec = d2;
    }
    let parts: Vec<&[u8]> = all.iter().map(Vec::as_slice).collect();
    format!("{:016x}", util::fnv_many(parts))
}

/// One more round with the travelling objects, on whatever thread calls it (same shape, same loss pattern).
fn multi_round_one<E: MkEngine>(seed: u64, pair: &mut Option<(EncObj<E>, DecObj<E>)>) -> String {
    let (enc, dec) = pair.take().unwrap();
    let mut keep: Option<(EncObj<E>, DecObj<E>)> = Some((enc, dec));
    let (k, r, sb) = (7usize, 4usize, 66usize);
    let (mut enc, mut dec) = keep.take().unwrap();
    let orig: Vec<Vec<u8>> = (0..k).map(|i| util::payload(seed, 0x18, i as u64, sb)).collect();
    for o in &orig {
        enc.add(o).unwrap();
    }
    let rec: Vec<Vec<u8>> = enc.encode().unwrap().recovery_iter().map(<[u8]>::to_vec).collect();
    for i in [1usize, 3, 4, 6] {
        dec.add_original(i, &orig[i]).unwrap();
    }
    for j in [0usize, 1, 3] {
        dec.add_recovery(j, &rec[j]).unwrap();
    }
    let mut out = Vec::new();
    {
        let res = dec.decode().unwrap();
        for (i, b) in res.restored_original_iter() {
            assert_eq!(b, &orig[i][..], "helper round: restored original {i} differs");
            out.push(b.to_vec());
        }
    }
    *pair = Some((enc, dec));
    let parts: Vec<&[u8]> = out.iter().map(Vec::as_slice).collect();
    format!("{:016x}", util::fnv_many(parts))
}

fn print_init_events() {
    for e in verif::take_init_events() {
        println!(
            "{}",
            Obj::new().str("ev", "init").str("table", e.table).int("thread", e.thread as i64).int("seq", e.seq as i64).bool("begin", e.begin).done()
        );
    }
}

// ----------------------------------------------------------------------
// child

pub fn child(args: &Args) -> i32 {
    let seed = args.num("seed", 1);
    match args.req("mode") {
        "probe-table" => {
            match args.req("table") {
                "EXP_LOG" => {
                    let _ = &*tables::EXP_LOG;
                }
                "LOG_WALSH" => {
                    let _ = &*tables::LOG_WALSH;
                }
                "MUL16" => {
                    let _ = &*tables::MUL16;
                }
                "MUL128" => {
                    let _ = &*tables::MUL128;
                }
                "SKEW" => {
                    let _ = &*tables::SKEW;
                }
                _ => return 2,
            }
            print_init_events();
            0
        }
        "probe-prog" => {
            let engine = args.req("engine");
            let s = Scn { engine: engines().iter().copied().find(|e| *e == engine).unwrap(), k: 5, r: 3, sb: 64, handover: false };
            let role = args.req("role");
            with_engine!(s.engine, E, {
                if role == "enc" {
                    let orig: Vec<Vec<u8>> = (0..s.k).map(|i| util::payload(seed, 0x16, i as u64, s.sb)).collect();
                    let mut enc = EncObj::<E>::new(Kind::Default, s.k, s.r, s.sb).unwrap();
                    for o in &orig {
                        enc.add(o).unwrap();
                    }
                    let _ = enc.encode().unwrap();
                } else {
                    let _ = run_scn::<E>(&s, seed);
                }
            });
            print_init_events();
            0
        }
        "storm" => {
            // many threads released by a spin barrier make their FIRST use of the tables at the same instant
            let n = args.num("n", 32) as usize;
            let gate = Arc::new(std::sync::atomic::AtomicUsize::new(0));
            let mut handles = Vec::new();
            for i in 0..n {
                let gate = gate.clone();
                handles.push(std::thread::spawn(move || -> (usize, &'static str, String) {
                    // every thread of one storm uses the SAME engine: they all touch the same statics directly
                    let s = Scn { engine: storm_engine(seed), ..scenario(i, seed) };
                    gate.fetch_add(1, std::sync::atomic::Ordering::SeqCst);
                    while gate.load(std::sync::atomic::Ordering::SeqCst) < n {
                        std::hint::spin_loop();
                    }
                    let d = with_engine!(s.engine, E, {
                        // the very first thing after the gate: construct the engine (forces its tables)
                        let probe = E::mk();
                        drop(probe);
                        run_scn::<E>(&Scn { k: 3, r: 2, sb: 64, ..s }, seed + i as u64)
                    });
                    (i, s.engine, d)
                }));
            }
            let mut status = 0;
            for h in handles {
                match h.join() {
                    Ok((slot, engine, dig)) => println!("{}", Obj::new().str("ev", "result").int("slot", slot as i64).str("engine", engine).str("dig", &dig).done()),
                    Err(p) => {
                        println!("{}", Obj::new().str("ev", "panic").str("msg", &util::panic_message(&*p)).done());
                        status = 3;
                    }
                }
            }
            print_init_events();
            status
        }
        "gated" => {
            *G_SKEW.lock().unwrap() = args.get("skew").unwrap_or("").split(',').filter_map(|x| x.parse().ok()).collect();
            gated_child(args.req("scenario"), seed, args.num("stagger", 0))
        }
        "pingpong" => {
            // objects travel between two threads between rounds; another decoder with a different loss pattern
            // works on the helper thread in between
            let n = args.num("n", 2) as usize;
            let mut handles = Vec::new();
            for i in 0..n {
                handles.push(std::thread::spawn(move || -> (usize, &'static str, String) {
                    let engine = engines()[(i + seed as usize) % engines().len()];
                    let d = with_engine!(engine, E, {
                        type Pair<E> = (EncObj<E>, DecObj<E>);
                        let (to_helper, helper_rx) = mpsc::channel::<Pair<E>>();
                        let (to_main, main_rx) = mpsc::channel::<Pair<E>>();
                        let helper = std::thread::spawn(move || {
                            // the helper thread owns a decoder of its own with another shape and loss pattern
                            let s = Scn { engine: "naive", k: 5, r: 3, sb: 64, handover: false };
                            while let Ok(pair) = helper_rx.recv() {
                                let _ = run_scn::<E>(&s, seed + 77);
                                // one round ON the helper thread, then back
                                let mut boxed = Some(pair);
                                let d = multi_round_one::<E>(seed + 1000, &mut boxed);
                                let _ = d;
                                if to_main.send(boxed.take().unwrap()).is_err() {
                                    break;
                                }
                            }
                        });
                        let d = multi_round::<E>(seed + i as u64, 3, |enc, dec| {
                            let s = Scn { engine: "naive", k: 3, r: 5, sb: 66, handover: false };
                            let _ = run_scn::<E>(&s, seed + 78);
                            to_helper.send((enc, dec)).unwrap();
                            main_rx.recv_timeout(Duration::from_secs(300)).expect("objects back")
                        });
                        drop(to_helper);
                        helper.join().unwrap();
                        d
                    });
                    (i, engine, d)
                }));
            }
            let mut status = 0;
            for h in handles {
                match h.join() {
                    Ok((slot, engine, dig)) => println!("{}", Obj::new().str("ev", "result").int("slot", slot as i64).str("engine", engine).str("dig", &dig).done()),
                    Err(p) => {
                        println!("{}", Obj::new().str("ev", "panic").str("msg", &util::panic_message(&*p)).done());
                        status = 3;
                    }
                }
            }
            print_init_events();
            status
        }
        "tls" => {
            // short-lived workers that keep their codecs in their OWN thread-locals (touched before the first codec
            // exists, so the codecs are dropped late during thread teardown)
            use reed_solomon_simd::{ReedSolomonDecoder, ReedSolomonEncoder};
            use std::cell::RefCell;
            thread_local! {
                static TL_ENC: RefCell<Option<ReedSolomonEncoder>> = const { RefCell::new(None) };
                static TL_DEC: RefCell<Option<ReedSolomonDecoder>> = const { RefCell::new(None) };
                static TL_MARK: RefCell<Vec<u8>> = const { RefCell::new(Vec::new()) };
            }
            let n = args.num("n", 4) as usize;
            let mut handles = Vec::new();
            for i in 0..n {
                handles.push(std::thread::spawn(move || -> (usize, &'static str, String) {
                    let (k, r, sb) = (6usize, 3usize, 66usize);
                    // touch the slots first: their destructors are registered before any codec exists
                    TL_MARK.with(|m| m.borrow_mut().push(1));
                    TL_ENC.with(|c| assert!(c.borrow().is_none()));
                    TL_DEC.with(|c| assert!(c.borrow().is_none()));
                    let mut all: Vec<Vec<u8>> = Vec::new();
                    for job in 0..3u64 {
                        let orig: Vec<Vec<u8>> = (0..k).map(|j| util::payload(seed + i as u64, 0x71 + job, j as u64, sb)).collect();
                        let rec: Vec<Vec<u8>> = TL_ENC.with(|c| {
                            let mut c = c.borrow_mut();
                            let e = c.get_or_insert_with(|| ReedSolomonEncoder::new(k, r, sb).unwrap());
                            for o in &orig {
                                e.add_original_shard(o).unwrap();
                            }
                            let res = e.encode().unwrap();
                            res.recovery_iter().map(<[u8]>::to_vec).collect()
                        });
                        TL_DEC.with(|c| {
                            let mut c = c.borrow_mut();
                            let d = c.get_or_insert_with(|| ReedSolomonDecoder::new(k, r, sb).unwrap());
                            for j in 0..r {
                                d.add_recovery_shard(j, &rec[j]).unwrap();
                            }
                            for j in r..k {
                                d.add_original_shard(j, &orig[j]).unwrap();
                            }
                            let res = d.decode().unwrap();
                            for (j, b) in res.restored_original_iter() {
                                assert_eq!(b, &orig[j][..]);
                            }
                        });
                        all.extend(rec);
                    }
                    let parts: Vec<&[u8]> = all.iter().map(Vec::as_slice).collect();
                    (i, "tls", format!("{:016x}", util::fnv_many(parts)))
                }));
            }
            let mut status = 0;
            for h in handles {
                match h.join() {
                    Ok((slot, engine, dig)) => println!("{}", Obj::new().str("ev", "result").int("slot", slot as i64).str("engine", engine).str("dig", &dig).done()),
                    Err(p) => {
                        println!("{}", Obj::new().str("ev", "panic").str("msg", &util::panic_message(&*p)).done());
                        status = 3;
                    }
                }
            }
            print_init_events();
            status
        }
        "nested" => {
            // one-shot calls whose input iterators are fed by OTHER threads' concurrent one-shot calls:
            // independent calls share no state, so this must complete and equal sequential execution
            let n = args.num("n", 3) as usize;
            let mut handles = Vec::new();
            for i in 0..n {
                handles.push(std::thread::spawn(move || -> (usize, &'static str, String) {
                    let (k, r, sb) = (4usize, 3usize, 64usize);
                    let (tx, rx) = mpsc::channel::<Vec<u8>>();
                    let feeder = std::thread::spawn(move || {
                        for j in 0..k {
                            // the shard handed to the outer call is itself the product of an inner one-shot call
                            let a = util::payload(seed + i as u64, 0x4E, j as u64, sb);
                            let b = util::payload(seed + i as u64, 0x4F, j as u64, sb);
                            let inner = reed_solomon_simd::encode(2, 1, [&a, &b]).expect("inner encode");
                            let restored = reed_solomon_simd::decode(2, 1, [(0usize, &a)], [(0usize, &inner[0])]).expect("inner decode");
                            assert_eq!(restored[&1], b);
                            if tx.send(inner[0].clone()).is_err() {
                                break;
                            }
                        }
                    });
                    let outer = reed_solomon_simd::encode(k, r, rx.into_iter().take(k)).expect("outer encode");
                    feeder.join().expect("feeder");
                    let parts: Vec<&[u8]> = outer.iter().map(Vec::as_slice).collect();
                    (i, "oneshot-nested", format!("{:016x}", util::fnv_many(parts)))
                }));
            }
            let mut status = 0;
            for h in handles {
                match h.join() {
                    Ok((slot, engine, dig)) => println!("{}", Obj::new().str("ev", "result").int("slot", slot as i64).str("engine", engine).str("dig", &dig).done()),
                    Err(p) => {
                        println!("{}", Obj::new().str("ev", "panic").str("msg", &util::panic_message(&*p)).done());
                        status = 3;
                    }
                }
            }
            print_init_events();
            status
        }
        "race" => {
            let n = args.num("n", 4) as usize;
            let barrier = Arc::new(Barrier::new(n));
            // thread i hands over to thread (i+1) % n when handover is set
            let mut scns: Vec<Scn> = (0..n).map(|i| scenario(i, seed)).collect();
            for (i, s) in scns.iter_mut().enumerate() {
                s.handover = (i + seed as usize) % 2 == 0 && n >= 2;
            }
            type Parcel = Box<dyn FnOnce() -> String + Send>;
            let mut txs: Vec<mpsc::Sender<Parcel>> = Vec::new();
            let mut rxs: Vec<Option<mpsc::Receiver<Parcel>>> = Vec::new();
            for _ in 0..n {
                let (tx, rx) = mpsc::channel::<Parcel>();
                txs.push(tx);
                rxs.push(Some(rx));
            }
            let mut handles = Vec::new();
            for i in 0..n {
                let s = scns[i];
                let barrier = barrier.clone();
                let next_tx = txs[(i + 1) % n].clone();
                let rx = rxs[i].take().unwrap();
                let expects_parcel = scns[(i + n - 1) % n].handover;
                handles.push(std::thread::spawn(move || -> Vec<(usize, &'static str, String)> {
                    barrier.wait();
                    let mut out = Vec::new();
                    with_engine!(s.engine, E, {
                        if s.handover {
                            // start a round here, finish it on the next thread
                            let (enc, orig) = start_scn::<E>(&s, seed + i as u64);
                            let mut dec = DecObj::<E>::new(Kind::Default, s.k, s.r, s.sb).unwrap();
                            let nrec = s.r.min(s.k);
                            for j in nrec..s.k {
                                dec.add_original(j, &orig[j]).unwrap();
                            }
                            let parcel: Parcel = Box::new(move || finish_scn::<E>(&s, enc, &orig, dec, nrec));
                            next_tx.send(parcel).unwrap();
                        } else {
                            out.push((i, s.engine, run_scn::<E>(&s, seed + i as u64)));
                        }
                        // a second, independent round on this thread (tables are now warm or being warmed)
                        out.push((i + 100, s.engine, run_scn::<E>(&scenario(i + 3, seed), seed + 100 + i as u64)));
                    });
                    if expects_parcel {
                        let parcel = rx.recv_timeout(Duration::from_secs(300)).expect("parcel");
                        out.push(((i + n - 1) % n, "handover", parcel()));
                    }
                    out
                }));
            }
            drop(txs);
            let mut status = 0;
            for h in handles {
                match h.join() {
                    Ok(v) => {
                        for (slot, engine, dig) in v {
                            println!("{}", Obj::new().str("ev", "result").int("slot", slot as i64).str("engine", engine).str("dig", &dig).done());
                        }
                    }
                    Err(p) => {
                        println!("{}", Obj::new().str("ev", "panic").str("msg", &util::panic_message(&*p)).done());
                        status = 3;
                    }
                }
            }
            print_init_events();
            status
        }
        _ => 2,
    }
}

/// Expected digest of a slot of a race, computed sequentially in the parent.
fn expected(n: usize, seed: u64) -> Vec<(usize, String)> {
    let mut v = Vec::new();
    for i in 0..n {
        let s = scenario(i, seed);
        let d = with_engine!(s.engine, E, { run_scn::<E>(&s, seed + i as u64) });
        v.push((i, d));
        let s2 = scenario(i + 3, seed);
        // the second round runs on the same engine type as the thread's first scenario
        let d2 = with_engine!(s.engine, E, { run_scn::<E>(&s2, seed + 100 + i as u64) });
        v.push((i + 100, d2));
    }
    v
}

/// Engine of a storm process: Naive (the only engine that touches EXP_LOG and SKEW directly from every
/// thread) every other time, the others in turn.
fn storm_engine(seed: u64) -> &'static str {
    const ORDER: [&str; 8] = ["naive", "nosimd", "naive", "naive", "avx2", "naive", "ssse3", "default"];
    ORDER[(seed / 3) as usize % ORDER.len()]
}

fn expected_storm(n: usize, seed: u64) -> Vec<(usize, String)> {
    (0..n)
        .map(|i| {
            let s = Scn { engine: storm_engine(seed), ..scenario(i, seed) };
            (i, with_engine!(s.engine, E, { run_scn::<E>(&Scn { k: 3, r: 2, sb: 64, ..s }, seed + i as u64) }))
        })
        .collect()
}

fn expected_pingpong(n: usize, seed: u64) -> Vec<(usize, String)> {
    (0..n)
        .map(|i| {
            let engine = engines()[(i + seed as usize) % engines().len()];
            let d = with_engine!(engine, E, {
                multi_round::<E>(seed + i as u64, 3, |enc, dec| {
                    let mut boxed = Some((enc, dec));
                    let _ = multi_round_one::<E>(seed + 1000, &mut boxed);
                    boxed.take().unwrap()
                })
            });
            (i, d)
        })
        .collect()
}

fn expected_tls(n: usize, seed: u64) -> Vec<(usize, String)> {
    (0..n)
        .map(|i| {
            let (k, r, sb) = (6usize, 3usize, 66usize);
            let mut all: Vec<Vec<u8>> = Vec::new();
            for job in 0..3u64 {
                let orig: Vec<Vec<u8>> = (0..k).map(|j| util::payload(seed + i as u64, 0x71 + job, j as u64, sb)).collect();
                all.extend(reed_solomon_simd::encode(k, r, &orig).unwrap());
            }
            let parts: Vec<&[u8]> = all.iter().map(Vec::as_slice).collect();
            (i, format!("{:016x}", util::fnv_many(parts)))
        })
        .collect()
}

fn expected_nested(n: usize, seed: u64) -> Vec<(usize, String)> {
    (0..n)
        .map(|i| {
            let (k, r, sb) = (4usize, 3usize, 64usize);
            let shards: Vec<Vec<u8>> = (0..k)
                .map(|j| {
                    let a = util::payload(seed + i as u64, 0x4E, j as u64, sb);
                    let b = util::payload(seed + i as u64, 0x4F, j as u64, sb);
                    // sequential: the reference encoder (low rate for 2:1? the rule decides) - use the public API sequentially
                    reed_solomon_simd::encode(2, 1, [&a, &b]).expect("inner encode")[0].clone()
                })
                .collect();
            let outer = reed_solomon_simd::encode(k, r, &shards).expect("outer encode");
            let parts: Vec<&[u8]> = outer.iter().map(Vec::as_slice).collect();
            (i, format!("{:016x}", util::fnv_many(parts)))
        })
        .collect()
}

// ----------------------------------------------------------------------
// gated children: a state of MC_TableInit is reached on the real code by holding threads at the begin / end of
// table initialisers (hook H6), then everything is released at the same instant

static G_ACTIVE: std::sync::atomic::AtomicBool = std::sync::atomic::AtomicBool::new(false);
static G_RELEASE: std::sync::atomic::AtomicBool = std::sync::atomic::AtomicBool::new(false);
static G_ARRIVED: std::sync::atomic::AtomicUsize = std::sync::atomic::AtomicUsize::new(0);
static G_HOLDS: std::sync::Mutex<Vec<(String, bool, bool)>> = std::sync::Mutex::new(Vec::new());

static G_PROGRESS: std::sync::atomic::AtomicU64 = std::sync::atomic::AtomicU64::new(0);
thread_local! {
    static G_SLOT: std::cell::Cell<Option<usize>> = const { std::cell::Cell::new(None) };
}

fn gate_cb(table: &'static str, begin: bool) {
    use std::sync::atomic::Ordering::SeqCst;
    if !G_ACTIVE.load(SeqCst) {
        return;
    }
    if G_RELEASE.load(SeqCst) {
        // a released thread reached another initialiser boundary: it is making progress
        if let Some(i) = G_SLOT.with(std::cell::Cell::get) {
            G_PROGRESS.fetch_or(1 << i, SeqCst);
        }
        return;
    }
    let mine = {
        let mut h = G_HOLDS.lock().unwrap();
        match h.iter_mut().enumerate().find(|(_, e)| e.0 == table && e.1 == begin && !e.2) {
            Some((i, e)) => {
                e.2 = true;
                Some(i)
            }
            None => None,
        }
    };
    if let Some(i) = mine {
        // how long this holder lingers after the release (a sweep over the relative timing of the released threads)
        let linger = G_SKEW.lock().unwrap().get(i).copied().unwrap_or(0);
        G_ARRIVED.fetch_add(1, SeqCst);
        while !G_RELEASE.load(std::sync::atomic::Ordering::Acquire) {
            std::hint::spin_loop();
        }
        for k in 0..linger {
            std::hint::black_box(k);
        }
    }
}

static G_SKEW: std::sync::Mutex<Vec<u64>> = std::sync::Mutex::new(Vec::new());
static G_TOUCHED: std::sync::atomic::AtomicUsize = std::sync::atomic::AtomicUsize::new(0);

fn touch_table(t: &str) {
    match t {
        "EXP_LOG" => {
            let _ = &*tables::EXP_LOG;
        }
        "LOG_WALSH" => {
            let _ = &*tables::LOG_WALSH;
        }
        "MUL16" => {
            let _ = &*tables::MUL16;
        }
        "MUL128" => {
            let _ = &*tables::MUL128;
        }
        _ => {
            let _ = &*tables::SKEW;
        }
    }
}

/// The engine whose rounds use table `t` (all of them use EXP_LOG, SKEW and, when decoding, LOG_WALSH).
fn engine_for(t: &str, i: usize) -> &'static str {
    let pick = |want: &[&'static str]| -> &'static str {
        let have = engines();
        let ok: Vec<&'static str> = want.iter().copied().filter(|w| have.contains(w)).collect();
        ok[i % ok.len()]
    };
    match t {
        "MUL16" => "nosimd",
        "MUL128" => pick(&["avx2", "ssse3", "default"]),
        _ => pick(&["naive", "nosimd", "avx2"]),
    }
}

fn gated_round(touch: &str, slot: usize, seed: u64) -> (usize, &'static str, String) {
    let e = engine_for(touch, slot);
    let s = Scn { engine: e, k: 3, r: 2, sb: 64, handover: false };
    let d = with_engine!(e, E, { run_scn::<E>(&s, seed + slot as u64) });
    (slot, e, d)
}

fn gated_child(scenario: &str, seed: u64, stagger_ns: u64) -> i32 {
    use std::sync::atomic::Ordering::SeqCst;
    let sc: serde_json::Value = serde_json::from_str(scenario).expect("scenario json");
    let strs = |v: &serde_json::Value| -> Vec<String> { v.as_array().map(|a| a.iter().map(|x| x.as_str().unwrap().to_string()).collect()).unwrap_or_default() };
    verif::set_init_gate(Some(gate_cb));
    // tables that are already done in the state
    for t in strs(&sc["done"]) {
        touch_table(&t);
    }
    let holders: Vec<(String, String, bool)> = sc["holders"]
        .as_array()
        .map(|a| a.iter().map(|h| (h["touch"].as_str().unwrap().to_string(), h["hold"].as_str().unwrap().to_string(), h["at"] == "begin")).collect())
        .unwrap_or_default();
    let arrivals = strs(&sc["arrivals"]);
    *G_HOLDS.lock().unwrap() = holders.iter().map(|h| (h.1.clone(), h.2, false)).collect();
    G_ACTIVE.store(true, SeqCst);
    let mut handles = Vec::new();
    let mut unreached = 0;
    for (i, h) in holders.iter().enumerate() {
        let touch = h.0.clone();
        handles.push(std::thread::spawn(move || {
            G_SLOT.with(|c| c.set(Some(i)));
            touch_table(&touch);
            G_PROGRESS.fetch_or(1 << i, SeqCst);
            gated_round(&touch, i, seed)
        }));
        // one holder after the other: wait until it sits at its hold point
        let t0 = Instant::now();
        while G_ARRIVED.load(SeqCst) < i + 1 - unreached && t0.elapsed() < Duration::from_millis(1500) {
            std::thread::sleep(Duration::from_micros(200));
        }
        if G_ARRIVED.load(SeqCst) < i + 1 - unreached {
            unreached += 1;
        }
    }
    // arrivals: make their first touch at the instant of the release (plus a stagger)
    let ready = Arc::new(std::sync::atomic::AtomicUsize::new(0));
    for (j, touch) in arrivals.iter().enumerate() {
        let touch = touch.clone();
        let ready = ready.clone();
        let slot = holders.len() + j;
        let delay = Duration::from_nanos(stagger_ns * j as u64);
        handles.push(std::thread::spawn(move || {
            ready.fetch_add(1, SeqCst);
            while !G_RELEASE.load(SeqCst) {
                std::hint::spin_loop();
            }
            let t0 = Instant::now();
            while t0.elapsed() < delay {
                std::hint::spin_loop();
            }
            touch_table(&touch);
            G_TOUCHED.fetch_add(1, SeqCst);
            gated_round(&touch, slot, seed)
        }));
    }
    let t0 = Instant::now();
    while ready.load(SeqCst) < arrivals.len() && t0.elapsed() < Duration::from_secs(3) {
        std::thread::sleep(Duration::from_micros(200));
    }
    std::thread::sleep(Duration::from_micros(500));
    G_RELEASE.store(true, SeqCst);
    if sc["fast"].as_bool().unwrap_or(false) {
        // only the question "does this schedule get stuck" is asked of this process: as soon as every released holder
        // has moved on (reached another initialiser boundary or finished its touch) and every arrival has its table,
        // nothing can be stuck any more (a cycle needs two) and the process ends without building the rest (results are compared in the
        // full runs of the same state).  Otherwise it falls through to the joins and the parent's watchdog decides.
        let all = if holders.len() >= 64 { u64::MAX } else { (1u64 << holders.len()) - 1 };
        let t0 = Instant::now();
        while t0.elapsed() < Duration::from_millis(1500) {
            // all holders but one have moved on: the last one cannot be stuck on its own
            let moved = (G_PROGRESS.load(SeqCst) & all).count_ones() as usize;
            if moved + 1 >= holders.len().max(1) + usize::from(holders.len() <= 1) && G_TOUCHED.load(SeqCst) == arrivals.len() {
                println!("{}", Obj::new().str("ev", "note").int("unreached", unreached as i64).done());
                use std::io::Write;
                let _ = std::io::stdout().flush();
                std::process::exit(0);
            }
            std::thread::sleep(Duration::from_micros(50));
        }
    }
    let mut status = 0;
    for h in handles {
        match h.join() {
            Ok((slot, engine, dig)) => println!("{}", Obj::new().str("ev", "result").int("slot", slot as i64).str("engine", engine).str("dig", &dig).done()),
            Err(p) => {
                println!("{}", Obj::new().str("ev", "panic").str("msg", &util::panic_message(&*p)).done());
                status = 3;
            }
        }
    }
    print_init_events();
    println!("{}", Obj::new().str("ev", "note").int("unreached", unreached as i64).done());
    status
}

fn expected_gated(touches: &[String], seed: u64) -> Vec<(usize, String)> {
    touches.iter().enumerate().map(|(i, t)| (i, gated_round(t, i, seed).2)).collect()
}

/// Parent of the gated children: one scenario per line of --scenarios, each repeated `repeat` times in fresh processes.
pub fn main_gated(args: &Args) -> i32 {
    let seed = args.num("seed", 1);
    let mut trace = Trace::create(args.req("out"));
    let tmo = Duration::from_secs(args.num("child-timeout", 20));
    let par = args.num("par", 8) as usize;
    let text = std::fs::read_to_string(args.req("scenarios")).expect("scenarios");
    let mut jobs: Vec<(usize, String, Vec<String>, u64, u64, String)> = Vec::new(); // (scenario no, json, touches, seed, stagger, skew)
    for (si, line) in text.lines().filter(|l| !l.trim().is_empty()).enumerate() {
        let v: serde_json::Value = serde_json::from_str(line).expect("scenario");
        let mut touches: Vec<String> = v["holders"].as_array().map(|a| a.iter().map(|h| h["touch"].as_str().unwrap().to_string()).collect()).unwrap_or_default();
        touches.extend(v["arrivals"].as_array().map(|a| a.iter().map(|x| x.as_str().unwrap().to_string()).collect::<Vec<_>>()).unwrap_or_default());
        let rep = v["repeat"].as_u64().unwrap_or(1);
        for r in 0..rep {
            let stagger = [0u64, 0, 40, 150, 600][(r % 5) as usize];
            // relative timing of the released holders: a sweep of -44 .. +44 loop iterations in steps of 4
            let d = (r % 23) as i64 * 4 - 44;
            let skew = format!("{},{},{}", d.max(0), (-d).max(0), (r / 23) % 7 * 6);
            jobs.push((si, line.to_string(), touches.clone(), seed * 100_000 + (si as u64) * 1000 + r, stagger, skew));
        }
    }
    let results: Vec<(usize, ChildOut)> = std::thread::scope(|sc| {
        let chunks: Vec<Vec<usize>> = (0..par).map(|p| (0..jobs.len()).skip(p).step_by(par).collect()).collect();
        let jobs = &jobs;
        let hs: Vec<_> = chunks
            .into_iter()
            .map(|c| {
                sc.spawn(move || {
                    c.into_iter()
                        .map(|ji| {
                            let (_, js, _, s, st, skew) = &jobs[ji];
                            let o = run_child(
                                &[
                                    "threads-child".into(), "--mode".into(), "gated".into(), "--scenario".into(), js.clone(), "--seed".into(), s.to_string(),
                                    "--stagger".into(), st.to_string(), "--skew".into(), skew.clone(),
                                ],
                                tmo,
                            );
                            (ji, o)
                        })
                        .collect::<Vec<_>>()
                })
            })
            .collect();
        let mut v: Vec<(usize, ChildOut)> = hs.into_iter().flat_map(|h| h.join().unwrap()).collect();
        v.sort_by_key(|x| x.0);
        v
    });
    let mut hangs = 0;
    let mut unreached = 0;
    let mut exp_cache: std::collections::HashMap<(Vec<String>, u64), Vec<(usize, String)>> = std::collections::HashMap::new();
    for (pi, (ji, o)) in results.into_iter().enumerate() {
        let (si, js, touches, s, st, _) = &jobs[ji];
        let proc_id = pi as i64 + 1;
        trace.line(&Obj::new().str("ev", "proc").int("proc", proc_id).str("kind", "race").str("what", &format!("gated scenario {si} seed={s} stagger={st}: {js}")).done());
        let exp = exp_cache.entry((touches.clone(), *s)).or_insert_with(|| expected_gated(touches, *s)).clone();
        for l in &o.lines {
            if l.contains("\"ev\":\"note\"") {
                if !l.contains("\"unreached\":0") {
                    unreached += 1;
                }
                continue;
            }
            let mut line = l.replacen('{', &format!("{{\"proc\":{proc_id},"), 1);
            if l.contains("\"ev\":\"result\"") {
                let v: serde_json::Value = serde_json::from_str(l).unwrap();
                let slot = v["slot"].as_u64().unwrap() as usize;
                let e = exp.iter().find(|x| x.0 == slot).map_or("?".to_string(), |x| x.1.clone());
                line = line.replacen('}', &format!(",\"expect\":\"{e}\"}}"), 1);
            }
            trace.line(&line);
        }
        if o.status == "hang" {
            hangs += 1;
        }
        let nres = o.lines.iter().filter(|l| l.contains("\"ev\":\"result\"")).count();
        // a fast run that ended early has no results (and that is all right); one that fell through has them all
        let is_fast = serde_json::from_str::<serde_json::Value>(js).map(|v| v["fast"].as_bool().unwrap_or(false)).unwrap_or(false);
        let fast_ended = is_fast && nres == 0 && o.status == "ok";
        let nexp = if fast_ended { 0 } else { touches.len() };
        trace.line(&Obj::new().str("ev", "exit").int("proc", proc_id).str("status", &o.status).int("results", nres as i64).int("expected_results", nexp as i64).done());
    }
    let lines = trace.finish();
    println!("{{\"events\":{},\"procs\":{},\"hangs\":{},\"unreached\":{}}}", lines, jobs.len(), hangs, unreached);
    0
}

// ----------------------------------------------------------------------
// parent

struct ChildOut {
    status: String,
    lines: Vec<String>,
}

fn run_child(args: &[String], timeout: Duration) -> ChildOut {
    let exe = std::env::current_exe().unwrap();
    let mut ch = Command::new(exe).args(args).stdout(Stdio::piped()).stderr(Stdio::null()).spawn().expect("spawn child");
    let start = Instant::now();
    let mut out = ch.stdout.take().unwrap();
    let reader = std::thread::spawn(move || {
        let mut s = String::new();
        let _ = out.read_to_string(&mut s);
        s
    });
    // A child that is still running at the deadline is a hang - unless the machine is so loaded that it simply has not
    // been given the processor: the deadline is extended (at most 6 times) while the child has consumed less CPU time
    // than a healthy child needs in total.  A deadlocked child sleeps (no CPU time at all since long before the
    // deadline), a live-locked one burns far more than that.
    let cpu_secs = |pid: u32| -> f64 {
        std::fs::read_to_string(format!("/proc/{pid}/stat"))
            .ok()
            .and_then(|t| {
                let rest = t.rsplit_once(')')?.1.to_string();
                let f: Vec<&str> = rest.split_whitespace().collect();
                Some((f.get(11)?.parse::<f64>().ok()? + f.get(12)?.parse::<f64>().ok()?) / 100.0)
            })
            .unwrap_or(-1.0)
    };
    let mut deadline = timeout;
    let mut extensions = 0;
    let status = loop {
        match ch.try_wait().unwrap() {
            Some(st) => break if st.success() { "ok".to_string() } else { format!("exit-{}", st.code().unwrap_or(-1)) },
            None => {
                if start.elapsed() > deadline {
                    let used = cpu_secs(ch.id());
                    let before = used;
                    std::thread::sleep(Duration::from_millis(1500));
                    let after = cpu_secs(ch.id());
                    // (CPU time that cannot be read is no evidence of a hang)
                    let progressing = after > before + 0.05 || after < 0.0 || before < 0.0;
                    if extensions < 6 && used < 20.0 && progressing {
                        extensions += 1;
                        deadline += timeout;
                        continue;
                    }
                    let _ = ch.kill();
                    let _ = ch.wait();
                    break "hang".to_string();
                }
                std::thread::sleep(Duration::from_micros(if start.elapsed() < Duration::from_millis(100) { 300 } else { 5000 }));
            }
        }
    };
    let text = reader.join().unwrap_or_default();
    ChildOut { status, lines: text.lines().filter(|l| l.starts_with('{')).map(str::to_string).collect() }
}

pub fn main(args: &Args) -> i32 {
    let seed = args.num("seed", 1);
    let outdir = args.req("outdir").to_string();
    let _ = std::fs::create_dir_all(&outdir);
    let mut deps = Trace::create(&format!("{outdir}/deps.ndjson"));
    let mut trace = Trace::create(&format!("{outdir}/trace.ndjson"));
    let mut proc_id = 0i64;
    let tmo = Duration::from_secs(args.num("child-timeout", 40));
    // ---- probes
    for t in TABLES {
        let o = run_child(&["threads-child".into(), "--mode".into(), "probe-table".into(), "--table".into(), t.into()], tmo);
        proc_id += 1;
        trace.line(&Obj::new().str("ev", "proc").int("proc", proc_id).str("kind", "probe-table").str("what", t).done());
        // nesting: tables whose begin lies between this table's begin and end, on the (single) thread
        let evs: Vec<serde_json::Value> = o.lines.iter().map(|l| serde_json::from_str(l).unwrap()).collect();
        let mut stack: Vec<String> = Vec::new();
        let mut direct: Vec<String> = Vec::new();
        for e in &evs {
            let tab = e["table"].as_str().unwrap().to_string();
            if e["begin"].as_bool().unwrap() {
                if stack.len() == 1 && stack[0] == t {
                    direct.push(tab.clone());
                }
                stack.push(tab);
            } else {
                stack.pop();
            }
        }
        for l in &o.lines {
            trace.line(&l.replacen('{', &format!("{{\"proc\":{proc_id},"), 1));
        }
        trace.line(&Obj::new().str("ev", "exit").int("proc", proc_id).str("status", &o.status).done());
        let d: Vec<String> = direct.iter().map(|x| format!("\"{x}\"")).collect();
        deps.line(&Obj::new().str("table", t).raw("deps", &util::arr_json(&d)).done());
    }
    for e in crate::engines::usable_engines() {
        for role in ["enc", "dec"] {
            let o = run_child(&["threads-child".into(), "--mode".into(), "probe-prog".into(), "--engine".into(), e.into(), "--role".into(), role.into()], tmo);
            proc_id += 1;
            trace.line(&Obj::new().str("ev", "proc").int("proc", proc_id).str("kind", "probe-prog").str("what", &format!("{e}-{role}")).done());
            let evs: Vec<serde_json::Value> = o.lines.iter().map(|l| serde_json::from_str(l).unwrap()).collect();
            let mut depth = 0;
            let mut touch: Vec<String> = Vec::new();
            for ev in &evs {
                if ev["begin"].as_bool().unwrap() {
                    if depth == 0 {
                        touch.push(format!("\"{}\"", ev["table"].as_str().unwrap()));
                    }
                    depth += 1;
                } else {
                    depth -= 1;
                }
            }
            for l in &o.lines {
                trace.line(&l.replacen('{', &format!("{{\"proc\":{proc_id},"), 1));
            }
            trace.line(&Obj::new().str("ev", "exit").int("proc", proc_id).str("status", &o.status).done());
            deps.line(&Obj::new().str("prog", &format!("{e}-{role}")).raw("touch", &util::arr_json(&touch)).done());
        }
    }
    deps.finish();
    // ---- races
    let races = args.num("races", 60) as usize;
    let par = args.num("par", 6) as usize;
    // three kinds of processes: "race" (mixed engines, hand-overs), "nested" (one-shot calls feeding one-shot
    // calls), and "storm" (many threads, one engine, simultaneous first use; run two at a time so that the
    // threads of one storm really run simultaneously on this 16-core host)
    let storms = args.num("storms", 6 * races as u64) as usize;
    let mut jobs: Vec<(usize, &'static str, usize, u64)> = Vec::new();
    for i in 0..races {
        let mode = if i % 5 == 2 { "nested" } else if i % 5 == 4 { "pingpong" } else if i % 10 == 3 { "tls" } else { "race" };
        let n = if mode == "nested" { 3 } else if mode == "pingpong" { 2 } else if mode == "tls" { 4 } else { 2 + (i % 7) };
        jobs.push((i, mode, n, seed * 1000 + i as u64));
    }
    let storm_jobs: Vec<(usize, &'static str, usize, u64)> = (0..storms).map(|i| (races + i, "storm", if i % 2 == 0 { 16 } else { 32 }, seed * 1000 + 500 + i as u64)).collect();
    fn run_jobs(jobs: &[(usize, &'static str, usize, u64)], par: usize, tmo: Duration) -> Vec<(usize, &'static str, usize, u64, ChildOut)> {
        std::thread::scope(|sc| {
            let chunks: Vec<Vec<(usize, &'static str, usize, u64)>> = (0..par).map(|p| jobs.iter().copied().skip(p).step_by(par).collect()).collect();
            let hs: Vec<_> = chunks
                .into_iter()
                .map(|c| {
                    sc.spawn(move || {
                        c.into_iter()
                            .map(|(i, mode, n, s)| {
                                let o = run_child(&["threads-child".into(), "--mode".into(), mode.into(), "--n".into(), n.to_string(), "--seed".into(), s.to_string()], tmo);
                                (i, mode, n, s, o)
                            })
                            .collect::<Vec<_>>()
                    })
                })
                .collect();
            hs.into_iter().flat_map(|h| h.join().unwrap()).collect()
        })
    }
    let mut results = run_jobs(&jobs, par, tmo);
    results.extend(run_jobs(&storm_jobs, 2, tmo));
    results.sort_by_key(|x| x.0);
    let mut hangs = 0;
    for (_, mode, n, s, o) in results {
        proc_id += 1;
        trace.line(&Obj::new().str("ev", "proc").int("proc", proc_id).str("kind", "race").str("what", &format!("{mode} n={n} seed={s}")).done());
        let exp = match mode {
            "storm" => expected_storm(n, s),
            "nested" => expected_nested(n, s),
            "pingpong" => expected_pingpong(n, s),
            "tls" => expected_tls(n, s),
            _ => expected(n, s),
        };
        let nexpected = if mode == "race" { 2 * n } else { n };
        for l in &o.lines {
            let mut line = l.replacen('{', &format!("{{\"proc\":{proc_id},"), 1);
            if l.contains("\"ev\":\"result\"") {
                let v: serde_json::Value = serde_json::from_str(l).unwrap();
                let slot = v["slot"].as_u64().unwrap() as usize;
                let e = exp.iter().find(|x| x.0 == slot).map_or("?".to_string(), |x| x.1.clone());
                line = line.replacen('}', &format!(",\"expect\":\"{e}\"}}"), 1);
            }
            trace.line(&line);
        }
        if o.status == "hang" {
            hangs += 1;
        }
        let nres = o.lines.iter().filter(|l| l.contains("\"ev\":\"result\"")).count();
        trace.line(&Obj::new().str("ev", "exit").int("proc", proc_id).str("status", &o.status).int("results", nres as i64).int("expected_results", nexpected as i64).done());
    }
    let lines = trace.finish();
    println!("{{\"events\":{},\"procs\":{},\"races\":{},\"storms\":{},\"hangs\":{}}}", lines, proc_id, races, storms, hangs);
    0
}
