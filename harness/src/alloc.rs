//! Counting global allocator: thread-local, armed only around measured calls.

use std::alloc::{GlobalAlloc, Layout, System};
use std::cell::{Cell, RefCell};

pub struct Counting;

thread_local! {
    static ARMED: Cell<bool> = const { Cell::new(false) };
    static LOG: RefCell<Vec<usize>> = const { RefCell::new(Vec::new()) };
}

fn note(size: usize) {
    // try_with: the allocator may be called during thread teardown
    let _ = ARMED.try_with(|a| {
        if a.get() {
            a.set(false); // the log itself may allocate
            let _ = LOG.try_with(|l| l.borrow_mut().push(size));
            a.set(true);
        }
    });
}

unsafe impl GlobalAlloc for Counting {
    unsafe fn alloc(&self, layout: Layout) -> *mut u8 {
        note(layout.size());
        System.alloc(layout)
    }
    unsafe fn dealloc(&self, ptr: *mut u8, layout: Layout) {
        // freed tables and working buffers are overwritten before they go back to the system: code that still reads them
        // through a dangling reference (undefined behaviour whose symptom would otherwise depend on the allocator's mood)
        // then reads 0xDD..., which shows as a wrong digest or an index panic
        if layout.size() >= 4096 {
            std::ptr::write_bytes(ptr, 0xDD, layout.size());
        }
        System.dealloc(ptr, layout)
    }
    unsafe fn alloc_zeroed(&self, layout: Layout) -> *mut u8 {
        note(layout.size());
        System.alloc_zeroed(layout)
    }
    unsafe fn realloc(&self, ptr: *mut u8, layout: Layout, new_size: usize) -> *mut u8 {
        note(new_size);
        System.realloc(ptr, layout, new_size)
    }
}

/// Runs `f` with allocation logging armed; returns its value and the sizes requested.
pub fn measure<T>(f: impl FnOnce() -> T) -> (T, Vec<usize>) {
    LOG.with(|l| l.borrow_mut().clear());
    ARMED.with(|a| a.set(true));
    let v = f();
    ARMED.with(|a| a.set(false));
    let log = LOG.with(|l| std::mem::take(&mut *l.borrow_mut()));
    (v, log)
}
