//! Engine registry: every engine usable on this host, by name.

use reed_solomon_simd::engine::{Avx2, DefaultEngine, Engine, Naive, NoSimd, Ssse3};

pub mod neon_port {
    #![allow(clippy::all, dead_code)]
    include!(concat!(env!("OUT_DIR"), "/engine_neon_port.rs"));
}
pub use neon_port::Neon as NeonEmu;

pub trait MkEngine: Engine + Sized {
    const NAME: &'static str;
    fn mk() -> Self;
}

macro_rules! mk {
    ($t:ty, $n:expr) => {
        impl MkEngine for $t {
            const NAME: &'static str = $n;
            fn mk() -> Self {
                <$t>::new()
            }
        }
    };
}
mk!(Naive, "naive");
mk!(NoSimd, "nosimd");
mk!(Ssse3, "ssse3");
mk!(Avx2, "avx2");
mk!(DefaultEngine, "default");
mk!(NeonEmu, "neonemu");

pub const ALL_ENGINES: [&str; 6] = ["naive", "nosimd", "ssse3", "avx2", "default", "neonemu"];

/// Engines whose instructions this CPU can execute.
pub fn usable_engines() -> Vec<&'static str> {
    let mut v = vec!["naive", "nosimd"];
    if std::is_x86_feature_detected!("ssse3") {
        v.push("ssse3");
    }
    if std::is_x86_feature_detected!("avx2") {
        v.push("avx2");
    }
    v.push("default");
    v.push("neonemu");
    v
}

/// `with_engine!(name, E, { ... })` runs the block with `E` bound to the engine type.
#[macro_export]
macro_rules! with_engine {
    ($name:expr, $E:ident, $body:block) => {
        match $name {
            "naive" => {
                type $E = reed_solomon_simd::engine::Naive;
                $body
            }
            "nosimd" => {
                type $E = reed_solomon_simd::engine::NoSimd;
                $body
            }
            "ssse3" => {
                type $E = reed_solomon_simd::engine::Ssse3;
                $body
            }
            "avx2" => {
                type $E = reed_solomon_simd::engine::Avx2;
                $body
            }
            "default" => {
                type $E = reed_solomon_simd::engine::DefaultEngine;
                $body
            }
            "neonemu" => {
                type $E = $crate::engines::NeonEmu;
                $body
            }
            other => panic!("unknown engine {other}"),
        }
    };
}
