//! Driver "rows": evaluates the supports predicates (and the private rate rule through hook H5)
//! over whole rows r = 0..=65537 for original counts k, as run-lengths, and validate/new/reset at
//! envelope corners.  Validated by Trace_Envelope.tla.

use crate::util::{self, arr_json, Obj, Trace};
use crate::Args;
use reed_solomon_simd::engine::Naive;
use reed_solomon_simd::rate::{
    DefaultRate, DefaultRateDecoder, DefaultRateEncoder, HighRate, HighRateDecoder, HighRateEncoder, LowRate,
    LowRateDecoder, LowRateEncoder, Rate, RateDecoder, RateEncoder,
};
use reed_solomon_simd::{ReedSolomonDecoder, ReedSolomonEncoder};

const TOP: usize = 65537;

/// value of predicate `pred` at (k, r): 0 unsupported, 1 supported (rule: 1 high, 2 low)
fn value(pred: &str, k: usize, r: usize) -> u8 {
    match pred {
        "high" => u8::from(HighRate::<Naive>::supports(k, r)),
        "low" => u8::from(LowRate::<Naive>::supports(k, r)),
        "default" => u8::from(DefaultRate::<Naive>::supports(k, r)),
        "high_enc" => u8::from(HighRateEncoder::<Naive>::supports(k, r)),
        "high_dec" => u8::from(HighRateDecoder::<Naive>::supports(k, r)),
        "low_enc" => u8::from(LowRateEncoder::<Naive>::supports(k, r)),
        "low_dec" => u8::from(LowRateDecoder::<Naive>::supports(k, r)),
        "default_enc" => u8::from(DefaultRateEncoder::<Naive>::supports(k, r)),
        "default_dec" => u8::from(DefaultRateDecoder::<Naive>::supports(k, r)),
        "rs_enc" => u8::from(ReedSolomonEncoder::supports(k, r)),
        "rs_dec" => u8::from(ReedSolomonDecoder::supports(k, r)),
        "rule" => match reed_solomon_simd::rate::verif_use_high_rate(k, r) {
            Ok(true) => 1,
            Ok(false) => 2,
            Err(_) => 0,
        },
        _ => panic!("pred {pred}"),
    }
}

pub const PREDS: [&str; 12] = [
    "high", "low", "default", "high_enc", "high_dec", "low_enc", "low_dec", "default_enc", "default_dec", "rs_enc", "rs_dec", "rule",
];

/// A panic inside a predicate is data (value 9), never a failure of the harness.
fn value_guarded(pred: &str, k: usize, r: usize) -> u8 {
    std::panic::catch_unwind(|| value(pred, k, r)).unwrap_or(9)
}

fn row_runs(pred: &str, k: usize) -> Vec<(u8, usize)> {
    // fast path: the whole row under one guard; on a panic redo it value by value
    if let Ok(runs) = std::panic::catch_unwind(|| row_runs_with(pred, k, value)) {
        return runs;
    }
    row_runs_with(pred, k, value_guarded)
}

fn row_runs_with(pred: &str, k: usize, f: fn(&str, usize, usize) -> u8) -> Vec<(u8, usize)> {
    let mut runs: Vec<(u8, usize)> = Vec::new();
    for r in 0..=TOP {
        let v = f(pred, k, r);
        match runs.last_mut() {
            Some((lv, n)) if *lv == v => *n += 1,
            _ => runs.push((v, 1)),
        }
    }
    runs
}

fn ret_json(r: Result<(), reed_solomon_simd::Error>) -> String {
    match r {
        Ok(()) => util::OK_JSON.to_string(),
        Err(e) => util::err_json(&e),
    }
}

pub fn main(args: &Args) -> i32 {
    let mut trace = Trace::create(args.req("out"));
    let seed = args.num("seed", 1);
    let thorough = args.thorough();
    // which rows: all of them (thorough) or a stride plus every neighbourhood of a power of two and of a corner
    let mut ks: Vec<usize> = Vec::new();
    if thorough {
        ks.extend(0..=TOP);
    } else {
        let stride = 16;
        ks.extend((0..=TOP).filter(|k| (k + seed as usize) % stride == 0));
        for n in 0..=16u32 {
            let p = 1usize << n;
            for d in 0..3 {
                for base in [p, 65536 - p] {
                    ks.push(base.saturating_sub(d).min(TOP));
                    ks.push((base + d).min(TOP));
                }
            }
        }
        ks.sort_unstable();
        ks.dedup();
    }
    let preds: Vec<&str> = PREDS.to_vec();
    let threads = args.num("threads", 14) as usize;
    let mut evaluated: u64 = 0;
    for pred in &preds {
        // rows in parallel
        let chunks: Vec<Vec<usize>> = (0..threads).map(|t| ks.iter().copied().skip(t).step_by(threads).collect()).collect();
        let mut rows: Vec<(usize, Vec<(u8, usize)>)> = std::thread::scope(|sc| {
            let hs: Vec<_> = chunks.iter().map(|c| sc.spawn(move || c.iter().map(|k| (*k, row_runs(pred, *k))).collect::<Vec<_>>())).collect();
            hs.into_iter().flat_map(|h| h.join().unwrap()).collect()
        });
        rows.sort();
        evaluated += rows.len() as u64 * (TOP as u64 + 1);
        // merge consecutive k (consecutive in the ks list AND numerically adjacent) with identical rows
        let mut i = 0;
        while i < rows.len() {
            let mut j = i;
            while j + 1 < rows.len() && rows[j + 1].0 == rows[j].0 + 1 && rows[j + 1].1 == rows[i].1 {
                j += 1;
            }
            let runs: Vec<String> = rows[i].1.iter().map(|(v, n)| format!("[{v},{n}]")).collect();
            trace.line(
                &Obj::new()
                    .str("ev", "row")
                    .str("pred", pred)
                    .us("k0", rows[i].0)
                    .us("k1", rows[j].0)
                    .raw("runs", &arr_json(&runs))
                    .done(),
            );
            i = j + 1;
        }
    }
    // validate / new / reset agreement at corners +-1 and usize extremes
    let mut cfgs: Vec<(usize, usize)> = Vec::new();
    for n in 0..=16u32 {
        let p = 1usize << n;
        for (k, r) in [(65536 - p, p), (p, 65536 - p)] {
            for dk in [-1i64, 0, 1] {
                for dr in [-1i64, 0, 1] {
                    let kk = k as i64 + dk;
                    let rr = r as i64 + dr;
                    if kk >= 0 && rr >= 0 {
                        cfgs.push((kk as usize, rr as usize));
                    }
                }
            }
        }
    }
    // both counts from the overflow-prone values (top powers of two and neighbours)
    for v in crate::replay::OVERFLOW_PRONE {
        for w in crate::replay::OVERFLOW_PRONE {
            cfgs.push((v, w));
        }
    }
    for v in [0usize, 1, 2, 65535, 65536, 65537, usize::MAX - 1, usize::MAX, 1 << 32, (1 << 32) + 1, 1 << 63] {
        for w in [0usize, 1, 65535, 65536, usize::MAX] {
            cfgs.push((v, w));
            cfgs.push((w, v));
        }
    }
    cfgs.sort_unstable();
    cfgs.dedup();
    let sizes = [0usize, 1, 2, 63, 64, 66, 100, 130, usize::MAX];
    let mut nval = 0u64;
    for (ci, (k, r)) in cfgs.iter().enumerate() {
        for (si, sb) in sizes.iter().enumerate() {
            for kind in ["high", "low", "default"] {
                let v = std::panic::catch_unwind(|| match kind {
                    "high" => HighRate::<Naive>::validate(*k, *r, *sb),
                    "low" => LowRate::<Naive>::validate(*k, *r, *sb),
                    _ => DefaultRate::<Naive>::validate(*k, *r, *sb),
                });
                let mut o = Obj::new().str("ev", "val").str("kind", kind).us("k", *k).us("r", *r).us("sb", *sb).raw("validate", &v.map_or_else(|_| util::panic_json("panic"), ret_json));
                // the provided validate of the encoder / decoder traits
                let ve = std::panic::catch_unwind(|| match kind {
                    "high" => HighRateEncoder::<Naive>::validate(*k, *r, *sb),
                    "low" => LowRateEncoder::<Naive>::validate(*k, *r, *sb),
                    _ => DefaultRateEncoder::<Naive>::validate(*k, *r, *sb),
                });
                let vd = std::panic::catch_unwind(|| match kind {
                    "high" => HighRateDecoder::<Naive>::validate(*k, *r, *sb),
                    "low" => LowRateDecoder::<Naive>::validate(*k, *r, *sb),
                    _ => DefaultRateDecoder::<Naive>::validate(*k, *r, *sb),
                });
                o = o.raw("validate_enc", &ve.map_or_else(|_| util::panic_json("panic"), ret_json)).raw("validate_dec", &vd.map_or_else(|_| util::panic_json("panic"), ret_json));
                // constructors (small shard sizes only: allocation), on a rotating subset
                if *sb <= 200 && (ci + si) % 3 == 0 {
                    let enc = std::panic::catch_unwind(|| match kind {
                        "high" => HighRateEncoder::new(*k, *r, *sb, Naive::new(), None).map(|_| ()),
                        "low" => LowRateEncoder::new(*k, *r, *sb, Naive::new(), None).map(|_| ()),
                        _ => DefaultRateEncoder::new(*k, *r, *sb, Naive::new(), None).map(|_| ()),
                    });
                    let dec = std::panic::catch_unwind(|| match kind {
                        "high" => HighRateDecoder::new(*k, *r, *sb, Naive::new(), None).map(|_| ()),
                        "low" => LowRateDecoder::new(*k, *r, *sb, Naive::new(), None).map(|_| ()),
                        _ => DefaultRateDecoder::new(*k, *r, *sb, Naive::new(), None).map(|_| ()),
                    });
                    o = o.raw("new_enc", &enc.map_or_else(|_| util::panic_json("panic"), ret_json));
                    o = o.raw("new_dec", &dec.map_or_else(|_| util::panic_json("panic"), ret_json));
                    // the provided constructors of the Rate trait
                    let renc = std::panic::catch_unwind(|| match kind {
                        "high" => HighRate::<Naive>::encoder(*k, *r, *sb, Naive::new(), None).map(|_| ()),
                        "low" => LowRate::<Naive>::encoder(*k, *r, *sb, Naive::new(), None).map(|_| ()),
                        _ => DefaultRate::<Naive>::encoder(*k, *r, *sb, Naive::new(), None).map(|_| ()),
                    });
                    let rdec = std::panic::catch_unwind(|| match kind {
                        "high" => HighRate::<Naive>::decoder(*k, *r, *sb, Naive::new(), None).map(|_| ()),
                        "low" => LowRate::<Naive>::decoder(*k, *r, *sb, Naive::new(), None).map(|_| ()),
                        _ => DefaultRate::<Naive>::decoder(*k, *r, *sb, Naive::new(), None).map(|_| ()),
                    });
                    o = o.raw("rate_enc", &renc.map_or_else(|_| util::panic_json("panic"), ret_json));
                    o = o.raw("rate_dec", &rdec.map_or_else(|_| util::panic_json("panic"), ret_json));
                    if kind == "default" {
                        let e = std::panic::catch_unwind(|| ReedSolomonEncoder::new(*k, *r, *sb).map(|_| ()));
                        let d = std::panic::catch_unwind(|| ReedSolomonDecoder::new(*k, *r, *sb).map(|_| ()));
                        o = o.raw("rs_enc", &e.map_or_else(|_| util::panic_json("panic"), ret_json));
                        o = o.raw("rs_dec", &d.map_or_else(|_| util::panic_json("panic"), ret_json));
                    }
                }
                // reset of an existing small object to this configuration (small shard sizes only: allocation)
                if *sb <= 200 && (ci + si) % 3 != 1 {
                    let renc = std::panic::catch_unwind(|| match kind {
                        "high" => HighRateEncoder::new(2, 1, 64, Naive::new(), None).unwrap().reset(*k, *r, *sb),
                        "low" => LowRateEncoder::new(1, 2, 64, Naive::new(), None).unwrap().reset(*k, *r, *sb),
                        _ => DefaultRateEncoder::new(2, 1, 64, Naive::new(), None).unwrap().reset(*k, *r, *sb),
                    });
                    let rdec = std::panic::catch_unwind(|| match kind {
                        "high" => HighRateDecoder::new(2, 1, 64, Naive::new(), None).unwrap().reset(*k, *r, *sb),
                        "low" => LowRateDecoder::new(1, 2, 64, Naive::new(), None).unwrap().reset(*k, *r, *sb),
                        _ => DefaultRateDecoder::new(2, 1, 64, Naive::new(), None).unwrap().reset(*k, *r, *sb),
                    });
                    o = o.raw("reset_enc", &renc.map_or_else(|_| util::panic_json("panic"), ret_json));
                    o = o.raw("reset_dec", &rdec.map_or_else(|_| util::panic_json("panic"), ret_json));
                    if kind == "default" {
                        let e = std::panic::catch_unwind(|| ReedSolomonEncoder::new(2, 1, 64).unwrap().reset(*k, *r, *sb));
                        let d = std::panic::catch_unwind(|| ReedSolomonDecoder::new(2, 1, 64).unwrap().reset(*k, *r, *sb));
                        o = o.raw("rs_reset_enc", &e.map_or_else(|_| util::panic_json("panic"), ret_json));
                        o = o.raw("rs_reset_dec", &d.map_or_else(|_| util::panic_json("panic"), ret_json));
                    }
                }
                trace.line(&o.done());
                nval += 1;
            }
        }
    }
    let lines = trace.finish();
    println!(
        "{{\"events\":{},\"rows\":{},\"pairs_evaluated\":{},\"val_events\":{},\"preds\":{}}}",
        lines,
        ks.len(),
        evaluated,
        nval,
        preds.len()
    );
    0
}
